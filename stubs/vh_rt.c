/* runtime half of vh.h */
#include "vh.h"
struct vh_env *vh_envp;
int vh_env_rc_i, vh_env_val_i;
void vh_env_reset(struct vh_env *e) { vh_envp = e; vh_env_rc_i = 0; vh_env_val_i = 0; }
int vh_next_rc(void) {
    ASSUME(vh_envp != NULL && vh_env_rc_i < VH_ENV_N);   /* tape length is a stated bound */
    return vh_envp->rc[vh_env_rc_i++];
}
long long vh_next_val(void) {
    ASSUME(vh_envp != NULL && vh_env_val_i < VH_ENV_N);
    return vh_envp->val[vh_env_val_i++];
}
#ifdef REPLAY
int vh_nreached;
static const char *vh_want;
void vh_reached(const char *name) { vh_nreached++; fprintf(stderr, "REPLAY: WITNESS reached: %s\n", name); }
void vh_read_inputs(void *p, size_t n) {
    const char *fn = getenv("VH_REPLAY_FILE");
    FILE *f = fn ? fopen(fn, "rb") : NULL;
    if (!f) { fprintf(stderr, "REPLAY: cannot open input blob\n"); exit(78); }
    size_t got = fread(p, 1, n, f);
    int extra = fgetc(f);
    fclose(f);
    if (got != n || extra != EOF) { fprintf(stderr, "REPLAY: input blob size mismatch (struct %zu bytes, blob %zu%s)\n", n, got, extra != EOF ? "+" : ""); exit(78); }
}
#endif
