/* mpi_model.h -- environment model for MPI / MPI-IO used by the harnesses (DESIGN.md section 3).
 * Every stub here is part of the claim of the harness that links it. */
#ifndef MPI_MODEL_H
#define MPI_MODEL_H
#include <mpi.h>

#ifndef VT_MAX
#define VT_MAX 32
#endif
enum vt_kind { EV_NONE = 0, EV_ALLREDUCE, EV_BCAST, EV_BARRIER, EV_SET_VIEW, EV_WRITE_AT_ALL, EV_READ_AT_ALL, EV_WRITE_ALL,
               EV_READ_ALL, EV_WRITE_AT, EV_READ_AT, EV_WRITE, EV_READ, EV_SYNC, EV_CLOSE, EV_OPEN, EV_SET_SIZE, EV_DELETE,
               EV_COMM_DUP, EV_COMM_FREE, EV_GET_SIZE, EV_ALLTOALL, EV_GATHER };
struct vt_event {
    int kind;            /* enum vt_kind */
    int collective;      /* 1 if every rank of the communicator / file must make the matching call */
    const void *handle;  /* communicator or file handle */
    long long off;       /* explicit file offset (I/O) or root (Bcast) */
    long long count;     /* element count argument */
    const void *dtype;   /* datatype handle */
    const void *buf;     /* buffer argument */
    int op;              /* reduce op: 1 MAX 2 MIN 3 SUM 4 other */
    int rc;              /* code returned to the caller */
    long long val;       /* first reduced value handed back (Allreduce) / bytes (I/O with predefined type) */
    long long own;       /* Allreduce: this rank's first contribution */
    long long vals[4];   /* Allreduce: first four reduced values */
};
extern struct vt_event vt_ev[VT_MAX];
extern int vt_n;                 /* number of recorded events */
extern int vt_rank, vt_nprocs;   /* answers of MPI_Comm_rank/size */
extern int vt_inject_io;         /* 1: every MPI-IO call draws its return code from the tape (any class), 0: MPI_SUCCESS */
extern int vt_io_failed;         /* ghost: a data-transfer call with a non-zero amount returned != MPI_SUCCESS */
extern int vt_any_failed;        /* ghost: any MPI-IO call returned != MPI_SUCCESS */
extern int vt_type_live;         /* datatypes created minus datatypes freed (C17.c) */
extern int vt_comm_live;
/* optional file image for harnesses that model content */
extern unsigned char *vt_file; extern long long vt_file_len;
extern long long vt_force_val[4]; extern int vt_force_cnt, vt_force_idx;   /* forced Allreduce results (self-composition) */
void vt_reset(int rank, int nprocs);
int vt_count_kind(int kind);
int vt_is_collective_kind(int kind);

/* captured datatype constructors */
#ifndef VT_NTYPES
#define VT_NTYPES 12
#endif
#define VT_TARR 8
enum vt_tkind { T_NONE = 0, T_SUBARRAY, T_HVECTOR, T_HINDEXED, T_STRUCT, T_RESIZED, T_VECTOR, T_CONTIG, T_DUP };
struct vt_type {
    int kind, committed, freed, n;
    long long a[VT_TARR], b[VT_TARR], c[VT_TARR];  /* sizes/subsizes/starts, or blocklens/disps */
    long long count, blocklen, stride, lb, extent, size;
    const void *old, *olds[VT_TARR];
    int order;
};
extern struct vt_type vt_types[VT_NTYPES];
extern int vt_ntypes;
struct vt_type *vt_type_of(MPI_Datatype t);   /* NULL for predefined handles */
long long vt_type_size(MPI_Datatype t);       /* bytes of data in one instance (predefined or captured) */
#endif
