/* mpi_model.c -- see mpi_model.h / DESIGN.md section 3 */
#include "vh.h"
#include "mpi_model.h"

struct vt_event vt_ev[VT_MAX];
int vt_n, vt_rank, vt_nprocs = 1, vt_inject_io, vt_io_failed, vt_any_failed, vt_type_live, vt_comm_live;
unsigned char *vt_file; long long vt_file_len;
struct vt_type vt_types[VT_NTYPES];
int vt_ntypes;
static long long vt_last_bytes;
long long vt_force_val[4]; int vt_force_cnt, vt_force_idx;

void vt_reset(int rank, int nprocs) {
    vt_n = 0; vt_rank = rank; vt_nprocs = nprocs; vt_io_failed = 0; vt_any_failed = 0; vt_type_live = 0; vt_comm_live = 0;
    vt_ntypes = 0; vt_last_bytes = 0; vt_force_cnt = 0; vt_force_idx = 0;
    memset(vt_ev, 0, sizeof vt_ev);
    memset(vt_types, 0, sizeof vt_types);
}
int vt_count_kind(int kind) { int c = 0; for (int i = 0; i < vt_n && i < VT_MAX; i++) if (vt_ev[i].kind == kind) c++; return c; }
int vt_is_collective_kind(int k) {
    return k == EV_ALLREDUCE || k == EV_BCAST || k == EV_BARRIER || k == EV_SET_VIEW || k == EV_WRITE_AT_ALL || k == EV_READ_AT_ALL ||
           k == EV_WRITE_ALL || k == EV_READ_ALL || k == EV_SYNC || k == EV_CLOSE || k == EV_OPEN || k == EV_SET_SIZE ||
           k == EV_COMM_DUP || k == EV_COMM_FREE || k == EV_ALLTOALL || k == EV_GATHER;
}
static struct vt_event *vt_push(int kind, const void *h, long long off, long long count, const void *dtype, const void *buf) {
    ASSUME(vt_n < VT_MAX);            /* trace length is a stated bound of the harness */
    struct vt_event *e = &vt_ev[vt_n++];
    e->kind = kind; e->collective = vt_is_collective_kind(kind); e->handle = h; e->off = off; e->count = count;
    e->dtype = dtype; e->buf = buf; e->op = 0; e->rc = MPI_SUCCESS; e->val = 0;
    return e;
}

/* ---------------- datatypes ---------------- */
struct vt_type *vt_type_of(MPI_Datatype t) {
    for (int i = 0; i < VT_NTYPES; i++) if ((const void *)t == (const void *)&vt_types[i]) return &vt_types[i];
    return NULL;
}
static long long predefined_size(MPI_Datatype t) {
    if (t == MPI_BYTE || t == MPI_CHAR || t == MPI_SIGNED_CHAR || t == MPI_UNSIGNED_CHAR) return 1;
    if (t == MPI_SHORT || t == MPI_UNSIGNED_SHORT) return 2;
    if (t == MPI_INT || t == MPI_UNSIGNED || t == MPI_FLOAT) return 4;
    if (t == MPI_LONG || t == MPI_UNSIGNED_LONG || t == MPI_LONG_LONG_INT || t == MPI_UNSIGNED_LONG_LONG || t == MPI_DOUBLE ||
        t == MPI_OFFSET || t == MPI_AINT || t == MPI_LONG_LONG) return 8;
    return -1;
}
long long vt_type_size(MPI_Datatype t) {      /* non-recursive: sizes are computed when a type is constructed */
    struct vt_type *v = vt_type_of(t);
    return v ? v->size : predefined_size(t);
}
static struct vt_type *vt_newtype(int kind, MPI_Datatype *newtype) {
    ASSUME(vt_ntypes < VT_NTYPES);
    struct vt_type *v = &vt_types[vt_ntypes++];
    memset(v, 0, sizeof *v);
    v->kind = kind; vt_type_live++;
    *newtype = (MPI_Datatype)v;
    return v;
}
int MPI_Type_create_subarray(int ndims, const int sizes[], const int subsizes[], const int starts[], int order, MPI_Datatype old, MPI_Datatype *nt) {
    struct vt_type *v = vt_newtype(T_SUBARRAY, nt); v->n = ndims; v->old = old; v->order = order;
    for (int i = 0; i < ndims && i < VT_TARR; i++) { v->a[i] = sizes[i]; v->b[i] = subsizes[i]; v->c[i] = starts[i]; }
    return MPI_SUCCESS;
}
int MPI_Type_create_hvector(int count, int blocklength, MPI_Aint stride, MPI_Datatype old, MPI_Datatype *nt) {
    struct vt_type *v = vt_newtype(T_HVECTOR, nt); v->count = count; v->blocklen = blocklength; v->stride = stride; v->old = old; v->size = (long long)count * blocklength * vt_type_size(old); return MPI_SUCCESS;
}
int MPI_Type_vector(int count, int blocklength, int stride, MPI_Datatype old, MPI_Datatype *nt) {
    struct vt_type *v = vt_newtype(T_VECTOR, nt); v->count = count; v->blocklen = blocklength; v->stride = stride; v->old = old; v->size = (long long)count * blocklength * vt_type_size(old); return MPI_SUCCESS;
}
int MPI_Type_create_hindexed(int count, const int bl[], const MPI_Aint disp[], MPI_Datatype old, MPI_Datatype *nt) {
    struct vt_type *v = vt_newtype(T_HINDEXED, nt); v->n = count; v->old = old;
    long long os = vt_type_size(old);
    for (int i = 0; i < count && i < VT_TARR; i++) { v->a[i] = bl[i]; v->b[i] = disp[i]; v->size += bl[i] * os; }
    return MPI_SUCCESS;
}
int MPI_Type_create_struct(int count, const int bl[], const MPI_Aint disp[], const MPI_Datatype types[], MPI_Datatype *nt) {
    struct vt_type *v = vt_newtype(T_STRUCT, nt); v->n = count;
    for (int i = 0; i < count && i < VT_TARR; i++) { v->a[i] = bl[i]; v->b[i] = disp[i]; v->olds[i] = types[i]; v->size += bl[i] * vt_type_size(types[i]); }
    return MPI_SUCCESS;
}
int MPI_Type_create_resized(MPI_Datatype old, MPI_Aint lb, MPI_Aint extent, MPI_Datatype *nt) {
    struct vt_type *v = vt_newtype(T_RESIZED, nt); v->old = old; v->lb = lb; v->extent = extent; v->size = vt_type_size(old); return MPI_SUCCESS;
}
int MPI_Type_contiguous(int count, MPI_Datatype old, MPI_Datatype *nt) {
    struct vt_type *v = vt_newtype(T_CONTIG, nt); v->count = count; v->old = old; v->size = count * vt_type_size(old); return MPI_SUCCESS;
}
int MPI_Type_dup(MPI_Datatype old, MPI_Datatype *nt) { struct vt_type *v = vt_newtype(T_DUP, nt); v->old = old; v->size = vt_type_size(old); return MPI_SUCCESS; }
int MPI_Type_commit(MPI_Datatype *t) { struct vt_type *v = vt_type_of(*t); if (v) v->committed = 1; return MPI_SUCCESS; }
int MPI_Type_free(MPI_Datatype *t) {
    struct vt_type *v = vt_type_of(*t);
    if (v) { ASSERT(!v->freed, "MPI datatype freed twice"); v->freed = 1; vt_type_live--; }
    *t = MPI_DATATYPE_NULL; return MPI_SUCCESS;
}
int MPI_Type_size(MPI_Datatype t, int *size) { *size = (int)vt_type_size(t); return MPI_SUCCESS; }
int MPI_Type_size_x(MPI_Datatype t, MPI_Count *size) { *size = vt_type_size(t); return MPI_SUCCESS; }
int MPI_Get_address(const void *loc, MPI_Aint *a) { *a = (MPI_Aint)loc; return MPI_SUCCESS; }

/* ---------------- communicator ---------------- */
int MPI_Comm_rank(MPI_Comm c, int *r) { *r = vt_rank; return MPI_SUCCESS; }
int MPI_Comm_size(MPI_Comm c, int *s) { *s = vt_nprocs; return MPI_SUCCESS; }
int MPI_Comm_dup(MPI_Comm c, MPI_Comm *n) { vt_push(EV_COMM_DUP, c, 0, 0, 0, 0); vt_comm_live++; *n = c; return MPI_SUCCESS; }
int MPI_Comm_free(MPI_Comm *c) { vt_push(EV_COMM_FREE, *c, 0, 0, 0, 0); vt_comm_live--; *c = MPI_COMM_NULL; return MPI_SUCCESS; }
int MPI_Barrier(MPI_Comm c) { vt_push(EV_BARRIER, c, 0, 0, 0, 0); return MPI_SUCCESS; }
double MPI_Wtime(void) { return 0.0; }
int MPI_Error_class(int code, int *cls) { *cls = code; return MPI_SUCCESS; }   /* "any error class" */
int MPI_Error_string(int code, char *s, int *len) { s[0] = 0; *len = 0; return MPI_SUCCESS; }

static int opcode(MPI_Op op) { return op == MPI_MAX ? 1 : op == MPI_MIN ? 2 : op == MPI_SUM ? 3 : op == MPI_LOR ? 5 : op == MPI_LAND ? 6 : 4; }
/* Allreduce contract: the result combines the own contribution with an arbitrary contribution of the other ranks
 * (MAX >= own, MIN <= own); with one process it is the own contribution. */
int MPI_Allreduce(const void *sb, void *rb, int count, MPI_Datatype dt, MPI_Op op, MPI_Comm comm) {
    struct vt_event *e = vt_push(EV_ALLREDUCE, comm, 0, count, dt, 0);
    int o = opcode(op); e->op = o;
    const void *src = (sb == MPI_IN_PLACE) ? rb : sb;
    for (int i = 0; i < count; i++) {
        long long own, oth, r;
        if (dt == MPI_INT) own = ((const int *)src)[i]; else own = ((const long long *)src)[i];
        if (vt_nprocs <= 1) r = own;
        else if (vt_force_idx < vt_force_cnt) {        /* harness replays the value the other run of the same collective got */
            r = vt_force_val[vt_force_idx++];
            ASSUME(o == 1 ? r >= own : o == 2 ? r <= own : 1);
        } else {
            oth = vh_next_val();
            if (dt == MPI_INT) oth = (int)oth;
            if (o == 1) r = own > oth ? own : oth; else if (o == 2) r = own < oth ? own : oth;
            else if (o == 5) r = (own || oth); else if (o == 6) r = (own && oth); else r = oth;
        }
        if (dt == MPI_INT) ((int *)rb)[i] = (int)r; else ((long long *)rb)[i] = r;
        if (i == 0) { e->val = r; e->own = own; }
        if (i < 4) e->vals[i] = r;
    }
    return MPI_SUCCESS;
}
/* Bcast contract: the root keeps its buffer, the others receive arbitrary bytes (what the root sent) */
int MPI_Bcast(void *buf, int count, MPI_Datatype dt, int root, MPI_Comm comm) {
    struct vt_event *e = vt_push(EV_BCAST, comm, root, count, dt, buf);
    if (vt_nprocs > 1 && vt_rank != root) {
        long long sz = predefined_size(dt);
        for (int i = 0; i < count && i < 8; i++) {
            long long v = vh_next_val();
            if (sz == 4) ((int *)buf)[i] = (int)v; else if (sz == 8) ((long long *)buf)[i] = v; else if (sz == 1) ((char *)buf)[i] = (char)v;
        }
    }
    (void)e; return MPI_SUCCESS;
}

/* ---------------- MPI-IO ---------------- */
static int io_rc(struct vt_event *e, long long amount) {
    int rc = vt_inject_io ? vh_next_rc() : MPI_SUCCESS;
    e->rc = rc;
    if (rc != MPI_SUCCESS) { vt_any_failed = 1; if (amount != 0) vt_io_failed = 1; }
    return rc;
}
static long long nbytes(long long count, MPI_Datatype dt) { long long s = vt_type_size(dt); return s < 0 ? count : count * s; }
static void img_write(long long off, const void *buf, long long n) {
    if (vt_file && buf && n > 0 && off >= 0 && off + n <= vt_file_len) memcpy(vt_file + off, buf, (size_t)n);
}
static void img_read(long long off, void *buf, long long n) {
    if (vt_file && buf && n > 0 && off >= 0) {
        long long avail = vt_file_len - off; if (avail < 0) avail = 0; if (avail > n) avail = n;
        if (avail > 0) memcpy(buf, vt_file + off, (size_t)avail);
    }
}
#define IO_STUB(name, KIND, is_write, has_off)                                                                   \
    e = vt_push(KIND, fh, has_off ? (long long)off : -1, count, dt, buf);                                        \
    b = nbytes(count, dt); e->val = b; rc = io_rc(e, b);                                                         \
    if (rc == MPI_SUCCESS) { vt_last_bytes = b; if (dt == MPI_BYTE) { if (is_write) img_write(off, buf, b); else { img_read(off, (void *)buf, b); \
        if (vt_file && off >= 0) { long long av = vt_file_len - off; if (av < 0) av = 0; if (av < b) vt_last_bytes = av; } } } } /* short read at end of file */ \
    else vt_last_bytes = 0;                                                                                      \
    return rc;
int MPI_File_write_at(MPI_File fh, MPI_Offset off, const void *buf, int count, MPI_Datatype dt, MPI_Status *st) { struct vt_event *e; long long b; int rc; IO_STUB(w, EV_WRITE_AT, 1, 1) }
int MPI_File_write_at_all(MPI_File fh, MPI_Offset off, const void *buf, int count, MPI_Datatype dt, MPI_Status *st) { struct vt_event *e; long long b; int rc; IO_STUB(w, EV_WRITE_AT_ALL, 1, 1) }
int MPI_File_read_at(MPI_File fh, MPI_Offset off, void *buf, int count, MPI_Datatype dt, MPI_Status *st) { struct vt_event *e; long long b; int rc; IO_STUB(r, EV_READ_AT, 0, 1) }
int MPI_File_read_at_all(MPI_File fh, MPI_Offset off, void *buf, int count, MPI_Datatype dt, MPI_Status *st) { struct vt_event *e; long long b; int rc; IO_STUB(r, EV_READ_AT_ALL, 0, 1) }
int MPI_File_write(MPI_File fh, const void *buf, int count, MPI_Datatype dt, MPI_Status *st) { struct vt_event *e; long long b; int rc; MPI_Offset off = -1; IO_STUB(w, EV_WRITE, 1, 0) }
int MPI_File_write_all(MPI_File fh, const void *buf, int count, MPI_Datatype dt, MPI_Status *st) { struct vt_event *e; long long b; int rc; MPI_Offset off = -1; IO_STUB(w, EV_WRITE_ALL, 1, 0) }
int MPI_File_read(MPI_File fh, void *buf, int count, MPI_Datatype dt, MPI_Status *st) { struct vt_event *e; long long b; int rc; MPI_Offset off = -1; IO_STUB(r, EV_READ, 0, 0) }
int MPI_File_read_all(MPI_File fh, void *buf, int count, MPI_Datatype dt, MPI_Status *st) { struct vt_event *e; long long b; int rc; MPI_Offset off = -1; IO_STUB(r, EV_READ_ALL, 0, 0) }
int MPI_File_set_view(MPI_File fh, MPI_Offset disp, MPI_Datatype etype, MPI_Datatype filetype, const char *rep, MPI_Info info) {
    struct vt_event *e = vt_push(EV_SET_VIEW, fh, disp, 0, filetype, 0); return io_rc(e, 0);
}
int MPI_File_sync(MPI_File fh) { struct vt_event *e = vt_push(EV_SYNC, fh, 0, 0, 0, 0); return io_rc(e, 0); }
int MPI_File_set_size(MPI_File fh, MPI_Offset size) { struct vt_event *e = vt_push(EV_SET_SIZE, fh, size, 0, 0, 0); return io_rc(e, 0); }
int MPI_File_get_size(MPI_File fh, MPI_Offset *size) { struct vt_event *e = vt_push(EV_GET_SIZE, fh, 0, 0, 0, 0); *size = vt_file_len; return io_rc(e, 0); }
int MPI_File_close(MPI_File *fh) { struct vt_event *e = vt_push(EV_CLOSE, *fh, 0, 0, 0, 0); *fh = MPI_FILE_NULL; return io_rc(e, 0); }
int MPI_File_delete(const char *fn, MPI_Info info) { struct vt_event *e = vt_push(EV_DELETE, 0, 0, 0, 0, 0); return io_rc(e, 0); }
int MPI_Get_count(const MPI_Status *st, MPI_Datatype dt, int *count) {
    long long s = vt_type_size(dt); *count = (s > 0) ? (int)(vt_last_bytes / s) : MPI_UNDEFINED; return MPI_SUCCESS;
}
int MPI_Info_create(MPI_Info *i) { *i = MPI_INFO_NULL; return MPI_SUCCESS; }
int MPI_Info_free(MPI_Info *i) { *i = MPI_INFO_NULL; return MPI_SUCCESS; }

/* MPI_Pack/MPI_Unpack: contiguous copy for predefined element types (derived types are modelled only where a harness
 * provides its own typemap evaluator) */
int MPI_Pack(const void *in, int incount, MPI_Datatype dt, void *out, int outsize, int *pos, MPI_Comm c) {
    long long n = nbytes(incount, dt);
    if (n > outsize - *pos) n = outsize - *pos;
    if (n > 0) memcpy((char *)out + *pos, in, (size_t)n);
    *pos += (int)n; return MPI_SUCCESS;
}
int MPI_Unpack(const void *in, int insize, int *pos, void *out, int outcount, MPI_Datatype dt, MPI_Comm c) {
    long long n = nbytes(outcount, dt);
    if (n > insize - *pos) n = insize - *pos;
    if (n > 0) memcpy(out, (const char *)in + *pos, (size_t)n);
    *pos += (int)n; return MPI_SUCCESS;
}

/* ---- datatype introspection for captured constructors (MPI_Type_get_envelope / get_contents) ---- */
int MPI_Type_get_envelope(MPI_Datatype t, int *ni, int *na, int *nd, int *combiner) {
    struct vt_type *v = vt_type_of(t);
    *ni = 0; *na = 0; *nd = 0;
    if (!v) { *combiner = MPI_COMBINER_NAMED; return MPI_SUCCESS; }
    *nd = 1;
    switch (v->kind) {
    case T_CONTIG: *ni = 1; *combiner = MPI_COMBINER_CONTIGUOUS; break;
    case T_RESIZED: *na = 2; *combiner = MPI_COMBINER_RESIZED; break;
    case T_DUP: *combiner = MPI_COMBINER_DUP; break;
    case T_VECTOR: *ni = 3; *combiner = MPI_COMBINER_VECTOR; break;
    case T_HVECTOR: *ni = 2; *na = 1; *combiner = MPI_COMBINER_HVECTOR; break;
    default: ASSUME(0);        /* other constructors are not introspected by any harness */
    }
    return MPI_SUCCESS;
}
int MPI_Type_get_contents(MPI_Datatype t, int ni, int na, int nd, int ints[], MPI_Aint adds[], MPI_Datatype types[]) {
    struct vt_type *v = vt_type_of(t);
    ASSUME(v != NULL);
    types[0] = (MPI_Datatype)v->old;
    switch (v->kind) {
    case T_CONTIG: ints[0] = (int)v->count; break;
    case T_RESIZED: adds[0] = v->lb; adds[1] = v->extent; break;
    case T_DUP: break;
    case T_VECTOR: ints[0] = (int)v->count; ints[1] = (int)v->blocklen; ints[2] = (int)v->stride; break;
    case T_HVECTOR: ints[0] = (int)v->count; ints[1] = (int)v->blocklen; adds[0] = v->stride; break;
    default: ASSUME(0);
    }
    return MPI_SUCCESS;
}
