/* Known finding C02_shortcut_count_match, shown through the public API (1 process).
 * Two iputs A (var a) and B (var b) are pending; ncmpi_wait_all(2, {NC_REQ_NULL, A}) names only A.
 * Expected (C02): B stays pending and can be completed or cancelled later.
 * Observed: B is flushed as well; a later wait on B's id reports NC_EINVAL_REQUEST. Exit 1 when observed. */
#include <stdio.h>
#include <mpi.h>
#include <pnetcdf.h>
#define CK(e) do { int _e = (e); if (_e != NC_NOERR) { fprintf(stderr, "line %d: %s\n", __LINE__, ncmpi_strerror(_e)); MPI_Abort(MPI_COMM_WORLD, 2); } } while (0)
int main(int argc, char **argv) {
    int ncid, dimid, va, vb, err, bad = 0, nreqs = -1;
    const char *fn = argc > 1 ? argv[1] : "/tmp/kf_shortcut.nc";
    MPI_Init(&argc, &argv);
    CK(ncmpi_create(MPI_COMM_WORLD, fn, NC_CLOBBER, MPI_INFO_NULL, &ncid));
    CK(ncmpi_def_dim(ncid, "x", 4, &dimid)); CK(ncmpi_def_var(ncid, "a", NC_INT, 1, &dimid, &va)); CK(ncmpi_def_var(ncid, "b", NC_INT, 1, &dimid, &vb));
    CK(ncmpi_enddef(ncid));
    int da[4] = { 1, 2, 3, 4 }, db[4] = { 5, 6, 7, 8 }, A, B, ids[2], st[2] = { 9, 9 };
    CK(ncmpi_iput_var_int(ncid, va, da, &A)); CK(ncmpi_iput_var_int(ncid, vb, db, &B));
    ids[0] = NC_REQ_NULL; ids[1] = A;
    CK(ncmpi_wait_all(ncid, 2, ids, st));
    CK(ncmpi_inq_nreqs(ncid, &nreqs));
    printf("after wait_all(2,{NC_REQ_NULL,A}): %d request(s) pending (expected 1: B)\n", nreqs);
    if (nreqs != 1) { fprintf(stderr, "VIOLATION: request B was not named but is no longer pending\n"); bad = 1; }
    err = ncmpi_wait_all(ncid, 1, &B, st);
    if (err != NC_NOERR) { fprintf(stderr, "VIOLATION: later wait on B fails: %s\n", ncmpi_strerror(err)); bad = 1; }
    ncmpi_close(ncid); MPI_Finalize();
    return bad;
}
