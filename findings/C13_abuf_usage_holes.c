/* Known finding C13_abuf_usage_holes through the public API (1 process): bput A; bput B; wait(A) ->
 * ncmpi_inq_buffer_usage still counts A's bytes although only B is pending. Exit 1 when observed. */
#include <stdio.h>
#include <stdlib.h>
#include <mpi.h>
#include <pnetcdf.h>
#define CK(e) do { int _e = (e); if (_e != NC_NOERR) { fprintf(stderr, "line %d: %s\n", __LINE__, ncmpi_strerror(_e)); MPI_Abort(MPI_COMM_WORLD, 2); } } while (0)
int main(int argc, char **argv) {
    int ncid, dimid, va, vb, A, B, st, bad = 0; MPI_Offset usage = -1;
    MPI_Init(&argc, &argv);
    CK(ncmpi_create(MPI_COMM_WORLD, argc > 1 ? argv[1] : "/tmp/kf_abuf.nc", NC_CLOBBER, MPI_INFO_NULL, &ncid));
    CK(ncmpi_def_dim(ncid, "x", 4, &dimid)); CK(ncmpi_def_var(ncid, "a", NC_INT, 1, &dimid, &va)); CK(ncmpi_def_var(ncid, "b", NC_INT, 1, &dimid, &vb));
    CK(ncmpi_enddef(ncid)); CK(ncmpi_buffer_attach(ncid, 64));
    int da[4] = { 1, 2, 3, 4 }, db[4] = { 5, 6, 7, 8 };
    CK(ncmpi_bput_var_int(ncid, va, da, &A)); CK(ncmpi_bput_var_int(ncid, vb, db, &B));
    CK(ncmpi_inq_buffer_usage(ncid, &usage)); printf("two bputs pending: usage %lld (expected 32)\n", (long long)usage);
    CK(ncmpi_wait_all(ncid, 1, &A, &st));
    CK(ncmpi_inq_buffer_usage(ncid, &usage)); printf("after wait(A): usage %lld (expected 16 = bytes of the pending bput B)\n", (long long)usage);
    if (usage != 16) { fprintf(stderr, "VIOLATION: usage %lld != 16\n", (long long)usage); bad = 1; }
    CK(ncmpi_wait_all(ncid, 1, &B, &st)); CK(ncmpi_buffer_detach(ncid)); ncmpi_close(ncid); MPI_Finalize();
    return bad;
}
