/* Known finding C08_zero_req_recvar through the public API (mpiexec -n 2, run under `timeout 20`):
 * collective put on a RECORD variable where rank 1 passes an invalid start.  Expected (C08): rank 1 gets its error code,
 * rank 0 succeeds, both return.  Observed: rank 0 blocks in MPI_Allreduce forever (exit status 124 from timeout).
 * With FIXED=1 in the environment the same program uses a fixed-size variable and completes (exit 0). */
#include <stdio.h>
#include <stdlib.h>
#include <mpi.h>
#include <pnetcdf.h>
#define CK(e) do { int _e = (e); if (_e != NC_NOERR) { fprintf(stderr, "line %d: %s\n", __LINE__, ncmpi_strerror(_e)); MPI_Abort(MPI_COMM_WORLD, 2); } } while (0)
int main(int argc, char **argv) {
    int rank, ncid, dt, dx, v, dims[2], err, fixed = getenv("FIXED") != NULL;
    MPI_Init(&argc, &argv); MPI_Comm_rank(MPI_COMM_WORLD, &rank);
    CK(ncmpi_create(MPI_COMM_WORLD, argc > 1 ? argv[1] : "/tmp/kf_zero.nc", NC_CLOBBER, MPI_INFO_NULL, &ncid));
    CK(ncmpi_def_dim(ncid, "t", fixed ? 8 : NC_UNLIMITED, &dt)); CK(ncmpi_def_dim(ncid, "x", 4, &dx));
    dims[0] = dt; dims[1] = dx; CK(ncmpi_def_var(ncid, "v", NC_INT, 2, dims, &v)); CK(ncmpi_enddef(ncid));
    int buf[4] = { 1, 2, 3, 4 }; MPI_Offset start[2] = { rank, 0 }, count[2] = { 1, 4 };
    if (rank == 1) start[1] = 99;                      /* invalid on this rank only */
    err = ncmpi_put_vara_int_all(ncid, v, start, count, buf);
    printf("rank %d: put_vara_int_all returned %d (%s)\n", rank, err, ncmpi_strerror(err)); fflush(stdout);
    ncmpi_close(ncid); MPI_Finalize();
    return 0;
}
