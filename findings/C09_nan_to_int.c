/* Known findings C09_nan_to_int and C09_pow2_64bit_bound through the public API (1 process): exit 1 when observed. */
#include <stdio.h>
#include <math.h>
#include <mpi.h>
#include <pnetcdf.h>
#define CK(e) do { int _e = (e); if (_e != NC_NOERR) { fprintf(stderr, "line %d: %s\n", __LINE__, ncmpi_strerror(_e)); MPI_Abort(MPI_COMM_WORLD, 2); } } while (0)
int main(int argc, char **argv) {
    int ncid, d, vi, vl, err, bad = 0; MPI_Offset s = 0, c = 1;
    MPI_Init(&argc, &argv);
    CK(ncmpi_create(MPI_COMM_WORLD, argc > 1 ? argv[1] : "/tmp/kf_nan.nc", NC_CLOBBER | NC_64BIT_DATA, MPI_INFO_NULL, &ncid));
    CK(ncmpi_def_dim(ncid, "x", 2, &d)); CK(ncmpi_def_var(ncid, "i", NC_INT, 1, &d, &vi)); CK(ncmpi_def_var(ncid, "l", NC_INT64, 1, &d, &vl)); CK(ncmpi_enddef(ncid));
    double nan_ = NAN, p63 = 9223372036854775808.0; int back = 0; long long lback = 0;
    err = ncmpi_put_vara_double_all(ncid, vi, &s, &c, &nan_); ncmpi_get_vara_int_all(ncid, vi, &s, &c, &back);
    printf("put NaN into NC_INT: %s, stored %d (expected NC_ERANGE and the fill value)\n", ncmpi_strerror(err), back);
    if (err != NC_ERANGE) bad = 1;
    err = ncmpi_put_vara_double_all(ncid, vl, &s, &c, &p63); ncmpi_get_vara_longlong_all(ncid, vl, &s, &c, &lback);
    printf("put 2^63 into NC_INT64: %s, stored %lld (expected NC_ERANGE and the fill value)\n", ncmpi_strerror(err), lback);
    if (err != NC_ERANGE) bad = 1;
    ncmpi_close(ncid); MPI_Finalize(); return bad;
}
