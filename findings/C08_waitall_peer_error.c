/* Known finding C08_waitall_peer_error, shown through the public API (run with mpiexec -n 2).
 * Rank 0 posts a valid iput and calls ncmpi_wait_all on it; rank 1 calls ncmpi_wait_all naming an unknown id.
 * Expected (C08/C02): rank 1 gets NC_EINVAL_REQUEST, rank 0 succeeds AND its data is stored.
 * Observed: rank 0 returns NC_NOERR, its id is reset, but the data never reaches the file. Exit 1 when observed. */
#include <stdio.h>
#include <stdlib.h>
#include <mpi.h>
#include <pnetcdf.h>
#define CK(e) do { int _e = (e); if (_e != NC_NOERR) { fprintf(stderr, "line %d: %s\n", __LINE__, ncmpi_strerror(_e)); MPI_Abort(MPI_COMM_WORLD, 2); } } while (0)
int main(int argc, char **argv) {
    int rank, np, ncid, dimid, varid, err, bad = 0;
    const char *fn = argc > 1 ? argv[1] : "/tmp/kf_waitall_peer.nc";
    MPI_Init(&argc, &argv); MPI_Comm_rank(MPI_COMM_WORLD, &rank); MPI_Comm_size(MPI_COMM_WORLD, &np);
    if (np < 2) { if (!rank) fprintf(stderr, "needs 2 processes\n"); MPI_Finalize(); return 3; }
    CK(ncmpi_create(MPI_COMM_WORLD, fn, NC_CLOBBER | NC_64BIT_DATA, MPI_INFO_NULL, &ncid));
    CK(ncmpi_def_dim(ncid, "x", 8, &dimid)); CK(ncmpi_def_var(ncid, "v", NC_INT, 1, &dimid, &varid));
    CK(ncmpi_set_fill(ncid, NC_FILL, NULL)); CK(ncmpi_enddef(ncid));
    int val[4] = { 11, 22, 33, 44 }, req = NC_REQ_NULL, st = 777;
    MPI_Offset start = 0, count = 4;
    if (rank == 0) { CK(ncmpi_iput_vara_int(ncid, varid, &start, &count, val, &req)); }
    else req = 4;                                /* an id that was never issued on this rank */
    err = ncmpi_wait_all(ncid, 1, &req, &st);
    printf("rank %d: wait_all returned %d (%s), status %d, id now %d\n", rank, err, ncmpi_strerror(err), st, req);
    int back[4] = { 0, 0, 0, 0 };
    CK(ncmpi_get_vara_int_all(ncid, varid, &start, &count, back));
    if (rank == 0 && err == NC_NOERR && (back[0] != 11 || back[3] != 44)) {
        fprintf(stderr, "VIOLATION: rank 0's wait_all returned NC_NOERR but its data is not in the file (read back %d %d %d %d)\n", back[0], back[1], back[2], back[3]);
        bad = 1;
    }
    ncmpi_close(ncid);
    MPI_Allreduce(MPI_IN_PLACE, &bad, 1, MPI_INT, MPI_MAX, MPI_COMM_WORLD);
    MPI_Finalize();
    return bad;
}
