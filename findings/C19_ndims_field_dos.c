/* Known finding C19_header_count_fields, shown through the public API (1 process): a 60-byte CDF-1 file whose variable
 * entry claims ndims = 0x7fffffff makes ncmpi_open allocate memory and loop in proportion to the CLAIMED count, not to the
 * size of the file.  Exit 1 when open needs more than 2 s or 1 GiB of address space. */
#include <stdio.h>
#include <stdlib.h>
#include <string.h>
#include <sys/time.h>
#include <sys/resource.h>
#include <mpi.h>
#include <pnetcdf.h>
static void be32(FILE *f, unsigned v) { unsigned char b[4] = { v >> 24, v >> 16, v >> 8, v }; fwrite(b, 1, 4, f); }
int main(int argc, char **argv) {
    const char *fn = argc > 1 ? argv[1] : "/tmp/kf_ndims.nc";
    MPI_Init(&argc, &argv);
    FILE *f = fopen(fn, "wb");
    fwrite("CDF\001", 1, 4, f); be32(f, 0);                 /* magic, numrecs */
    be32(f, 10); be32(f, 1); be32(f, 1); fwrite("x\0\0\0", 1, 4, f); be32(f, 4);   /* one dimension x = 4 */
    be32(f, 0); be32(f, 0);                                  /* no global attributes */
    be32(f, 11); be32(f, 1); be32(f, 1); fwrite("v\0\0\0", 1, 4, f); be32(f, 0x7fffffff);  /* variable v, ndims = 2^31-1 */
    be32(f, 0); be32(f, 0);
    fclose(f);
    struct rlimit rl = { 1UL << 30, 1UL << 30 };             /* 1 GiB address space: far more than a 60-byte file needs */
    struct timeval t0, t1; int ncid, err, bad = 0;
    gettimeofday(&t0, NULL);
    if (argc > 2) setrlimit(RLIMIT_AS, &rl);
    err = ncmpi_open(MPI_COMM_WORLD, fn, NC_NOWRITE, MPI_INFO_NULL, &ncid);
    gettimeofday(&t1, NULL);
    double s = (t1.tv_sec - t0.tv_sec) + 1e-6 * (t1.tv_usec - t0.tv_usec);
    struct rusage ru; getrusage(RUSAGE_SELF, &ru);
    printf("ncmpi_open of a 60-byte file: %s after %.2f s, max RSS %ld MiB\n", ncmpi_strerror(err), s, ru.ru_maxrss / 1024);
    if (s > 2.0 || ru.ru_maxrss > (1L << 20)) { fprintf(stderr, "VIOLATION: time/memory not related to the size of the file\n"); bad = 1; }
    if (err == NC_NOERR) ncmpi_close(ncid);
    MPI_Finalize();
    return bad;
}
