/* Finding C01_flatten_1d_recvar through the public API (1 process): strided put on a 1-D record variable.
 * ncmpi_put_vars_int_all(start 0, count 3, stride 2) on t(time) with a second record variable u(time) in the file must
 * write records 0,2,4 of t and leave u alone.  Exit 1 when the values land elsewhere. */
#include <stdio.h>
#include <mpi.h>
#include <pnetcdf.h>
#define CK(e) do { int _e = (e); if (_e != NC_NOERR) { fprintf(stderr, "line %d: %s\n", __LINE__, ncmpi_strerror(_e)); MPI_Abort(MPI_COMM_WORLD, 2); } } while (0)
int main(int argc, char **argv) {
    int ncid, dimid, vt, vu, bad = 0;
    MPI_Init(&argc, &argv);
    CK(ncmpi_create(MPI_COMM_WORLD, argc > 1 ? argv[1] : "/tmp/kf_flat.nc", NC_CLOBBER, MPI_INFO_NULL, &ncid));
    CK(ncmpi_def_dim(ncid, "time", NC_UNLIMITED, &dimid));
    CK(ncmpi_def_var(ncid, "t", NC_INT, 1, &dimid, &vt)); CK(ncmpi_def_var(ncid, "u", NC_INT, 1, &dimid, &vu));
    CK(ncmpi_enddef(ncid));
    int zero[6] = { 0, 0, 0, 0, 0, 0 }, seven[6] = { 7, 7, 7, 7, 7, 7 }; MPI_Offset s0 = 0, c6 = 6;
    CK(ncmpi_put_vara_int_all(ncid, vt, &s0, &c6, zero)); CK(ncmpi_put_vara_int_all(ncid, vu, &s0, &c6, seven));
    int val[3] = { 10, 20, 30 }; MPI_Offset st = 0, cnt = 3, str = 2;
    CK(ncmpi_put_vars_int_all(ncid, vt, &st, &cnt, &str, val));
    int t[6], u[6];
    CK(ncmpi_get_vara_int_all(ncid, vt, &s0, &c6, t)); CK(ncmpi_get_vara_int_all(ncid, vu, &s0, &c6, u));
    printf("t = %d %d %d %d %d %d (expected 10 0 20 0 30 0)\nu = %d %d %d %d %d %d (expected all 7)\n", t[0], t[1], t[2], t[3], t[4], t[5], u[0], u[1], u[2], u[3], u[4], u[5]);
    if (t[0] != 10 || t[2] != 20 || t[4] != 30 || t[1] || t[3] || t[5]) { fprintf(stderr, "VIOLATION: strided put wrote the wrong records of t\n"); bad = 1; }
    for (int i = 0; i < 6; i++) if (u[i] != 7) { fprintf(stderr, "VIOLATION: another variable was overwritten (u[%d] = %d)\n", i, u[i]); bad = 1; break; }
    ncmpi_close(ncid); MPI_Finalize(); return bad;
}
