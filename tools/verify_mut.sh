#!/bin/bash
# verify_mut.sh <ID> <name> <nprocs>: confirm a seeded mutation (patched worktree /tmp/mut/<ID>, outputs /tmp/mut/<ID>_out)
#   - patch applies to a clean checkout; demo passes on the clean build (/tmp/wt_tpl) and fails on the patched build;
#   - /tmp/wt_tpl is a scratch copy of a built /repo (rsync -a /repo/ /tmp/wt_tpl/); it is removed at the end of a session and must be recreated before using this tool (no registered check needs it).
#   - the whole baseline test suite still passes on the patched build.  Stores everything under /verif/seeded/<name>/.
ID=$1; NAME=$2; NP=${3:-1}
export OMPI_ALLOW_RUN_AS_ROOT=1 OMPI_ALLOW_RUN_AS_ROOT_CONFIRM=1 OMPI_MCA_rmaps_base_oversubscribe=1 OMPI_MCA_btl_vader_single_copy_mechanism=none
W=/tmp/mut/$ID; O=/tmp/mut/${ID}_out; D=/verif/seeded/$NAME; mkdir -p $D
cp $O/patch.diff $D/patch.diff; cp $O/demo.c $D/demo.c; cp $O/README.txt $D/README.agent.txt
git -C /repo apply --check $D/patch.diff || { echo "PATCH DOES NOT APPLY to /repo HEAD"; }
# patched tree must correspond exactly to the patch
( cd $W && git diff -- src > /tmp/mut/${ID}_cur.diff ); cmp -s /tmp/mut/${ID}_cur.diff $D/patch.diff && echo "worktree diff == patch.diff" || echo "WARNING worktree diff differs from patch.diff"
( cd $W && make -j8 > $O/rebuild.log 2>&1 ) || echo "BUILD FAILED"
mkdir -p $O/run && cd $O/run
mpicc -g -o $O/demo_clean $D/demo.c -I/tmp/wt_tpl/src/include /tmp/wt_tpl/src/libs/.libs/libpnetcdf.a -lm || echo "demo clean build failed"
mpicc -g -o $O/demo_mut $D/demo.c -I$W/src/include $W/src/libs/.libs/libpnetcdf.a -lm || echo "demo mut build failed"
timeout 120 mpiexec --allow-run-as-root --oversubscribe -n $NP $O/demo_clean > $O/demo_clean.out 2>&1; RC_CLEAN=$?
timeout 120 mpiexec --allow-run-as-root --oversubscribe -n $NP $O/demo_mut > $O/demo_mut.out 2>&1; RC_MUT=$?
echo "demo clean rc=$RC_CLEAN  mutated rc=$RC_MUT"; tail -3 $O/demo_mut.out
( cd $W && make -k -j8 check VERBOSE=1 > $O/check_verify.log 2>&1 )
COUNTS=$(grep -E "^# (TOTAL|PASS|FAIL|ERROR|XFAIL|SKIP)" $O/check_verify.log | awk '{a[$2]+=$3} END{for(k in a) printf "%s%s ",k,a[k]}')
echo "suite with mutation: $COUNTS"
python3 - "$ID" "$NAME" "$NP" "$RC_CLEAN" "$RC_MUT" "$COUNTS" <<'PY'
import json,sys,os
ID,NAME,NP,RC,RM,COUNTS=sys.argv[1:7]
d='/verif/seeded/'+NAME
meta={"name":NAME,"property":ID,"nprocs_demo":int(NP),"demo_rc_unmodified":int(RC),"demo_rc_mutated":int(RM),
 "suite_counts_with_mutation":COUNTS.strip(),
 "confirmed": int(RC)==0 and int(RM)!=0 and "FAIL:0" in COUNTS and "ERROR:0" in COUNTS and "PASS:73" in COUNTS,
 "what_i_ran":"tools/verify_mut.sh: git apply --check on /repo HEAD; rebuilt patched worktree; demo linked against clean build (/tmp/wt_tpl copy of /repo) and patched build, run with mpiexec -n %s; make -k -j8 check on the patched worktree"%NP,
 "demo_output_mutated": open('/tmp/mut/%s_out/demo_mut.out'%ID,errors='replace').read()[-600:]}
old={}
if os.path.exists(d+'/meta.json'): old=json.load(open(d+'/meta.json'))
old.update(meta); json.dump(old,open(d+'/meta.json','w'),indent=1)
print("confirmed:",meta["confirmed"])
PY
