#!/bin/bash
# mut_matrix.sh: run every seeded change against the check of the property it targets; prints one line per change
cd /verif
for d in seeded/*/; do n=$(basename $d); p=${n%%-*}; [ -f props/$p.py ] || { echo "$n: no check for $p yet"; continue; }
  tools/try_mut.sh $n $p 2>&1 | grep -E "^== |^VIOLATION" | head -2 | tr '\n' ' '; echo; done
