#!/bin/bash
# regen_evidence.sh [ids...]: re-run the quick tier of the given (default: all registered) checks on the unchanged tree so that
# every committed evidence file comes from /verif run against /repo itself
cd /verif; git -C /repo diff --quiet || { echo "/repo dirty"; exit 9; }
ids="$@"; [ -z "$ids" ] && ids=$(python3 -c "import json; print(' '.join(c['property_id'] for c in json.load(open('MANIFEST.json'))['checks']))")
for p in $ids; do /usr/bin/time -f "$p %es" python3 check.py $p --tier quick > /tmp/regen_$p.log 2>&1; echo "$p rc=$? $(tail -1 /tmp/regen_$p.log)"; done
