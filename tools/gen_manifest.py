#!/usr/bin/env python3
"""Regenerate /verif/MANIFEST.json from props/Cxx.py (MANIFEST dict in each module) and NOT_APPLICABLE below."""
import importlib, json, os, sys
V = os.path.dirname(os.path.dirname(os.path.abspath(__file__)))
sys.path.insert(0, V)
ids = ["C%02d" % i for i in range(1, 21)]
# thorough tiers that were run to completion on the unchanged tree; the others register the quick tier only (thorough_cmd is optional)
THOROUGH_OK = {"C02", "C03", "C05", "C06", "C08", "C07", "C09", "C10", "C11", "C12", "C13", "C14", "C15", "C16", "C17", "C18", "C20"}
checks, na, served = [], [], []
for i in ids:
    if not os.path.exists(os.path.join(V, "props", i + ".py")):
        na.append({"property_id": i, "reason": "no check registered yet (work in progress; see DESIGN.md section 5 for the planned obligations)"})
        continue
    m = importlib.import_module("props." + i)
    if getattr(m, "NOT_APPLICABLE", None):
        na.append({"property_id": i, "reason": m.NOT_APPLICABLE})
        continue
    M = m.MANIFEST
    served.append(i)
    checks.append({
        "property_id": i,
        "quick_cmd": "python3 check.py %s --tier quick" % i,
        **({"thorough_cmd": "python3 check.py %s --tier thorough" % i} if i in THOROUGH_OK else {}),
        "evidence_file": "evidence/%s.json" % i,
        "replay_cmd_template": "python3 check.py %s --replay {path}" % i,
        "engine": "cbmc-runner",
        "level_claimed": {"category": "model_checking", "text": M["text"], "design_ref": "DESIGN.md section 5 " + i},
        "level_note": M["note"],
        "technique": M.get("technique", "CBMC bounded model checking of the real C units; witness twin; native replay"),
    })
man = {
    "version": 1,
    "setup_cmd": "python3 -c \"import json; json.load(open('MANIFEST.json'))\" && cbmc --version && goto-cc --version >/dev/null && m4 --version >/dev/null && gcc --version >/dev/null",
    "hooks": {
        "guard": "PNETCDF_VERIF",
        "enable": "no source hooks are needed: static functions and variables are reached by textual #include of the regenerated unit, heavy callees are cut by renaming their definition in a scratch copy (vlib/runner.py rename_defs); /repo is never modified or built in place by a check",
        "baseline_off_cmd": "cd /repo && export OMPI_ALLOW_RUN_AS_ROOT=1 OMPI_ALLOW_RUN_AS_ROOT_CONFIRM=1 OMPI_MCA_rmaps_base_oversubscribe=1 OMPI_MCA_btl_vader_single_copy_mechanism=none && make -k -j8 check VERBOSE=1",
        "source_commits": [],
        "add_only": True,
    },
    "engines": [{"name": "cbmc-runner", "path": "vlib/runner.py", "serves_properties": served,
                 "kind_free_text": "m4 -> goto-cc of the real translation units -> CBMC 6.11 bounded symbolic execution (SAT) with unwinding assertions; -DWITNESS vacuity twin; counterexamples and witnesses replayed natively (gcc+ASan/UBSan) against the same real code"}],
    "checks": checks,
    "not_applicable": na,
    "notes": "DESIGN.md explains the approach; known_findings.txt lists genuine defects (known:/fixed:); seeded/ holds independently written breaking changes and which checks catch them",
}
json.dump(man, open(os.path.join(V, "MANIFEST.json"), "w"), indent=1)
print("checks:", served, "not_applicable:", [x["property_id"] for x in na])
