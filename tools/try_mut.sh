#!/bin/bash
# try_mut.sh <seeded-name> <check...>: apply a seeded change to /repo, run the given property checks (quick tier), undo.
N=$1; shift
cd /repo && git diff --quiet || { echo "/repo has uncommitted changes"; exit 9; }
git -C /repo apply /verif/seeded/$N/patch.diff || { echo "patch does not apply"; exit 9; }
rm -rf /tmp/evidence_keep && cp -a /verif/evidence /tmp/evidence_keep
trap 'git -C /repo checkout -- . ; rm -rf /verif/evidence && mv /tmp/evidence_keep /verif/evidence; rm -rf /verif/replays' EXIT
cd /verif
for c in "$@"; do
  out=$(python3 check.py $c --tier ${TIER:-quick} 2>&1); rc=$?
  echo "== $N vs $c: exit $rc"; echo "$out" | grep -E "^VIOLATION|^   obligation|^INCONCLUSIVE|^ENCODING" | head -8 | cut -c1-250
done
