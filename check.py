#!/usr/bin/env python3
"""check.py <PROPERTY> [--tier quick|thorough] [--replay file] -- entry point registered in MANIFEST.json"""
import argparse
import importlib
import os
import sys

sys.path.insert(0, os.path.dirname(os.path.abspath(__file__)))
from vlib import runner  # noqa: E402


def main():
    ap = argparse.ArgumentParser()
    ap.add_argument("prop")
    ap.add_argument("--tier", default=os.environ.get("VERIF_TIER", "quick"), choices=["quick", "thorough"])
    ap.add_argument("--replay")
    a = ap.parse_args()
    seed = int(os.environ.get("VERIF_SEED", "0") or 0)
    mod = importlib.import_module("props." + a.prop)
    ctx0 = runner.Ctx(a.prop, "probe", 0)
    erange_fill = "-DERANGE_FILL" in ctx0.m4flags("src/drivers/common")
    ctx0.cleanup()
    try:
        jobs = mod.jobs(a.tier, erange_fill=erange_fill)
    except TypeError:
        jobs = mod.jobs(a.tier)
    if a.replay:
        sys.exit(runner.replay_file(a.prop, a.replay, jobs))
    rc = runner.run_property(a.prop, a.tier, jobs, getattr(mod, "LEVEL", ""), getattr(mod, "ASSUMPTIONS", []),
                             getattr(mod, "EXPLANATION", ""), seed)
    print("%s: %s (tier %s, %d obligations)" % (a.prop, {0: "HOLDS within bounds", 1: "VIOLATED", 2: "BROKEN/INCONCLUSIVE"}[rc],
                                                  a.tier, len(jobs)))
    sys.exit(rc)


if __name__ == "__main__":
    main()
