/* C14.a -- API mode state machine: one inductive step over the product state (dispatcher PNC.flag, driver NC.flags,
 * NC.old) from ANY state satisfying the coupling invariant
 *    M:  RDONLY and DEF agree in both layers;  INDEP agrees whenever not in define mode and is clear in the driver in
 *        define mode (the dispatcher's copy may be stale there: it is cleared by enddef);
 *        old != NULL  =>  DEF and not CREATE;  CREATE => DEF
 * Real code: dispatchers of src/dispatchers/file.c (textual inclusion: static id table), real driver halves
 * ncmpio_redef / begin_indep_data / end_indep_data (ncmpio_file_misc.c, dup_NC cut), ncmpio_sync_numrecs,
 * ncmpio_sync, ncmpio_write_numrecs (ncmpio_sync.c), ncmpio_wait's mode tests (req_commit cut).
 * Cut by contract: ncmpio_enddef/_enddef (on success clear DEF|CREATE, drop old; on failure arbitrary),
 * dup_NC (returns an object), req_commit (no mode change).
 * Reference automaton written from the property statement.
 */
#include "vh.h"
#include "mpi_model.h"
#include <pnetcdf.h>
#include "u/file.c"
#include <ncmpio_NC.h>
#include <ncmpio_driver.h>

struct inputs {
    unsigned char def, indep, rdonly, create, has_old, safe;   /* abstract pre-state */
    unsigned char drv_indep_in_def;                            /* in define mode the two INDEP bits are unrelated */
    unsigned char op;
    long long a[4];
    int nreqs, drv_rc;
    long long numrecs; int num_rec_vars, nprocs, rank;
    struct vh_env env;
};
static struct inputs in;
static NC nc, oldnc;
static char fh_i, fh_c;

/* ---- cuts (contracts) ---- */
int ncmpio__enddef(void *ncdp, MPI_Offset a, MPI_Offset b, MPI_Offset c, MPI_Offset d) {
    NC *ncp = (NC *)ncdp;
    if (in.drv_rc != NC_NOERR) return in.drv_rc;       /* failing enddef: no mode change in this contract */
    ncp->old = NULL; fClr(ncp->flags, NC_MODE_CREATE | NC_MODE_DEF);
    return NC_NOERR;
}
int ncmpio_enddef(void *ncdp) { return ncmpio__enddef(ncdp, 0, 0, 0, 0); }
NC *vh_dup_NC(const NC *ref) { return &oldnc; }
int vh_req_commit(NC *ncp, int num_reqs, int *req_ids, int *statuses, int coll_indep) { return in.drv_rc; }

enum { OP_ENDDEF, OP__ENDDEF, OP_REDEF, OP_BEGIN_INDEP, OP_END_INDEP, OP_SYNC, OP_SYNC_NUMRECS, OP_WAIT, OP_WAIT_ALL, OP_N };

VH_MAIN {
    VH_INPUTS(in0); in = in0;
    static PNC pnc; static struct PNC_driver drv;
    int def = in.def != 0, indep = in.indep != 0, rdonly = in.rdonly != 0, create = in.create != 0, has_old = in.has_old != 0;
    /* reachable abstract states */
    ASSUME(!(create && !def)); ASSUME(!(has_old && (!def || create))); ASSUME(!(rdonly && (def || create)));
    ASSUME(in.nprocs >= 1 && in.nprocs <= 4 && in.rank >= 0 && in.rank < in.nprocs && in.numrecs >= 0 && in.numrecs < (1LL << 31));
    ASSUME(in.num_rec_vars >= 0 && in.num_rec_vars <= 2 && in.op < OP_N);
#ifdef OP_FIXED
    in.op = OP_FIXED;
#endif
    vh_env_reset(&in.env); vt_reset(in.rank, in.nprocs); vt_inject_io = 0;

    /* nc, pnc, drv are static objects: zero-initialised (no memset: keeps pointer fields constant for the solver) */
    int drv_indep = def ? 0 : indep;   /* M: the driver leaves independent mode before it enters define mode */
    pnc.flag = (def ? NC_MODE_DEF : 0) | (indep ? NC_MODE_INDEP : 0) | (rdonly ? NC_MODE_RDONLY : 0) | (create ? NC_MODE_CREATE : 0) |
               (in.safe ? NC_MODE_SAFE : 0);
    nc.flags = (def ? NC_MODE_DEF : 0) | (drv_indep ? NC_MODE_INDEP : 0) | (rdonly ? NC_MODE_RDONLY : 0) | (create ? NC_MODE_CREATE : 0);
    nc.old = has_old ? &oldnc : NULL; nc.safe_mode = in.safe ? 1 : 0;
    nc.nprocs = in.nprocs; nc.rank = in.rank; nc.format = 5; nc.numrecs = in.numrecs; nc.vars.num_rec_vars = in.num_rec_vars;
    nc.independent_fh = (MPI_File)&fh_i; nc.collective_fh = (MPI_File)&fh_c; nc.comm = MPI_COMM_WORLD;
    pnc.comm = MPI_COMM_WORLD; pnc.ncp = &nc; pnc.driver = &drv; pnc.format = NC_FORMAT_CDF5;
    drv.enddef = ncmpio_enddef; drv._enddef = ncmpio__enddef; drv.redef = ncmpio_redef; drv.begin_indep_data = ncmpio_begin_indep_data;
    drv.end_indep_data = ncmpio_end_indep_data; drv.sync = ncmpio_sync; drv.sync_numrecs = ncmpio_sync_numrecs; drv.wait = ncmpio_wait;
    pnc_filelist[0] = &pnc; pnc_numfiles = 1;

    int err = 0, flag0 = pnc.flag, dflags0 = nc.flags;
    int req[1] = { 0 }, st[1] = { 0 };
    switch (in.op) {
    case OP_ENDDEF: err = ncmpi_enddef(0); break;
    case OP__ENDDEF: err = ncmpi__enddef(0, in.a[0], in.a[1], in.a[2], in.a[3]); break;
    case OP_REDEF: err = ncmpi_redef(0); break;
    case OP_BEGIN_INDEP: err = ncmpi_begin_indep_data(0); break;
    case OP_END_INDEP: err = ncmpi_end_indep_data(0); break;
    case OP_SYNC: err = ncmpi_sync(0); break;
    case OP_SYNC_NUMRECS: err = ncmpi_sync_numrecs(0); break;
    case OP_WAIT: ASSUME(in.nreqs >= 0 && in.nreqs <= 1); err = ncmpi_wait(0, in.nreqs, req, st); break;
    case OP_WAIT_ALL: ASSUME(in.nreqs >= 0 && in.nreqs <= 1); err = ncmpi_wait_all(0, in.nreqs, req, st); break;
    }

    /* ---------- reference automaton ---------- */
    int ndef = def, nindep = indep, expect = 0, rejected = 0;   /* expect: 0 = success or driver outcome, else the documented error */
    int drv_fail = (in.drv_rc != NC_NOERR);
    int safe_multi = in.safe && in.nprocs > 1;
    switch (in.op) {
    case OP_ENDDEF: case OP__ENDDEF:
        if (!def) { expect = NC_ENOTINDEFINE; rejected = 1; }
        else if (in.op == OP__ENDDEF && (in.a[0] < 0 || in.a[1] < 0 || in.a[2] < 0 || in.a[3] < 0)) { expect = NC_EINVAL; rejected = 1; }
        else if (!drv_fail) { ndef = 0; nindep = 0; }
        break;
    case OP_REDEF:
        if (rdonly) { expect = NC_EPERM; rejected = 1; } else if (def) { expect = NC_EINDEFINE; rejected = 1; } else ndef = 1;
        break;
    case OP_BEGIN_INDEP: if (def) { expect = NC_EINDEFINE; rejected = 1; } else nindep = 1; break;
    case OP_END_INDEP: if (def) { expect = NC_EINDEFINE; rejected = 1; } else nindep = 0; break;
    case OP_SYNC: case OP_SYNC_NUMRECS: if (def) { expect = NC_EINDEFINE; rejected = 1; } break;
    case OP_WAIT: if (def) { expect = NC_EINDEFINE; rejected = 1; } else if (!indep) { expect = NC_ENOTINDEP; rejected = 1; } break;
    case OP_WAIT_ALL: if (def) { expect = NC_EINDEFINE; rejected = 1; } else if (indep) { expect = NC_EINDEP; rejected = 1; } break;
    }
    /* safe mode may replace a rank's code by the minimum over ranks (another rank's error): only check the local rule then */
    if (rejected && !(safe_multi && (in.op == OP_ENDDEF || in.op == OP__ENDDEF))) {
        ASSERT(err == expect, "a call not permitted in the current mode returns the documented error");
    }
    if (rejected) {
        ASSERT(err != NC_NOERR, "a call not permitted in the current mode does not succeed");
        ASSERT(pnc.flag == flag0, "a rejected call leaves the dispatcher's mode unchanged");
        ASSERT((nc.flags & (NC_MODE_DEF | NC_MODE_INDEP | NC_MODE_RDONLY | NC_MODE_CREATE)) == (dflags0 & (NC_MODE_DEF | NC_MODE_INDEP | NC_MODE_RDONLY | NC_MODE_CREATE)),
               "a rejected call leaves the driver's mode unchanged");
        ASSERT(vt_count_kind(EV_WRITE_AT) + vt_count_kind(EV_WRITE_AT_ALL) == 0, "a rejected call writes nothing");
    }
    if (!rejected && err == NC_NOERR) {
        int d2 = (pnc.flag & NC_MODE_DEF) != 0, i2 = (pnc.flag & NC_MODE_INDEP) != 0;
        int dd2 = (nc.flags & NC_MODE_DEF) != 0, di2 = (nc.flags & NC_MODE_INDEP) != 0;
        ASSERT(d2 == ndef, "dispatcher: define/data mode follows the reference automaton");
        ASSERT(dd2 == ndef, "driver: define/data mode follows the reference automaton (both layers agree)");
        if (!ndef) { ASSERT(i2 == nindep, "dispatcher: collective/independent mode follows the reference automaton");
                     ASSERT(di2 == nindep, "driver: collective/independent mode follows the reference automaton (both layers agree)"); }
        ASSERT(((pnc.flag & NC_MODE_RDONLY) != 0) == rdonly && ((nc.flags & NC_MODE_RDONLY) != 0) == rdonly, "read-only status never changes");
        if (in.op == OP_REDEF) ASSERT(nc.old != NULL && !(nc.flags & NC_MODE_CREATE), "redef keeps a copy of the old header");
        if (!ndef) ASSERT(nc.old == NULL, "no saved header outside define mode");
        if (ndef) ASSERT(!di2, "the driver is not left in independent mode when define mode is entered (coupling invariant)");
    }
    if (!rejected && !drv_fail && in.op != OP_SYNC && in.op != OP_SYNC_NUMRECS && in.op != OP_END_INDEP && in.op != OP_REDEF &&
        !(safe_multi && (in.op == OP_ENDDEF || in.op == OP__ENDDEF)))
        ASSERT(err == NC_NOERR, "a permitted call succeeds");
#if !defined(OP_FIXED) || OP_FIXED == 2
    COVER(in.op == OP_REDEF && indep && err == NC_NOERR, "redef entered from independent data mode");
#endif
#if !defined(OP_FIXED) || OP_FIXED == 0
    COVER(in.op == OP_ENDDEF && err == NC_NOERR && has_old, "enddef after redef");
#endif
#if !defined(OP_FIXED) || OP_FIXED == 8
    COVER(in.op == OP_WAIT_ALL && !rejected && err == NC_NOERR, "wait_all permitted in collective mode");
#endif
#if !defined(OP_FIXED) || OP_FIXED == 7
    COVER(in.op == OP_WAIT && rejected && expect == NC_ENOTINDEP, "wait rejected in collective mode");
#endif
#if !defined(OP_FIXED) || OP_FIXED == 4
    COVER(in.op == OP_END_INDEP && indep && !def && err == NC_NOERR && in.num_rec_vars > 0 && !rdonly, "leaving independent mode syncs the record count");
#endif
#if !defined(OP_FIXED) || OP_FIXED == 1
    COVER(in.op == OP__ENDDEF && rejected && expect == NC_EINVAL, "_enddef with a negative argument");
#endif
    COVER(rejected, "call rejected by the mode rules");
    COVER(!rejected && err == NC_NOERR, "call permitted and successful");
    WITNESS_END();
    VH_RETURN;
}
