/* C15.a (+C14.b precedence inside the checker) -- check_start_count_stride / check_EINVALCOORDS / check_EEDGE
 * (static functions of src/dispatchers/var_getput.m4, reached by textual inclusion of the regenerated unit).
 *
 * For ALL 64-bit (start,count,stride,shape,numrecs) of an ND-dimensional variable, fixed or record, read or write,
 * strict or relaxed coordinate bound, CDF-1/2 vs CDF-5, every API kind:  accepted  <=>  the request fits the
 * variable's current shape (reference in __int128, no wrap-around), and a rejected request gets the documented code
 * in the documented precedence NC_EINVALCOORDS > NC_EEDGE (NC_ENEGATIVECNT unranked) > NC_ESTRIDE.
 */
#include "vh.h"
#include "u/var_getput.c"

#ifndef ND
#define ND 2
#endif
typedef __int128 i128;
#ifdef MODE_SMALL
#define MUL(a, b) ((i128)((long long)(a) * (long long)(b)))   /* no overflow inside the box */
#else
#define MUL(a, b) ((a) * (i128)(b))
#endif

struct inputs {
    long long shape[ND], start[ND], count[ND];
    unsigned char stride_sel[ND];
    long long stride_small[ND];   /* stride drawn from {2^k : k<63} u {3,5,6,7,10,0,-1,-3,INT64_MIN,INT64_MAX} (stated bound) */
    long long numrecs;
    unsigned char is_rec, is_read, kind, strict, cdf5, count_null;
};

static long long g_numrecs;
static int stub_inq_dim(void *ncp, int dimid, char *name, MPI_Offset *len) { if (len) *len = g_numrecs; return NC_NOERR; }

static struct inputs in;
static long long g_stride[ND];
static void run_case(void);

VH_MAIN {
    VH_INPUTS(in0);
    in = in0;
#ifdef MODE_SMALL
    /* every value in [-2^BOX, 2^BOX): the solver covers all tuples of this box, strides included */
    for (int i = 0; i < ND; i++) {
        ASSUME(in.shape[i] < (1 << BOX) && in.start[i] >= -(1 << BOX) && in.start[i] < (1 << BOX) && in.count[i] >= -(1 << BOX) && in.count[i] < (1 << BOX));
        ASSUME(in.stride_small[i] >= -(1 << BOX) && in.stride_small[i] < (1 << BOX));
        g_stride[i] = in.stride_small[i];
    }
    ASSUME(in.numrecs < (1 << BOX));
#else
    /* 64-bit extremes: start/count/shape/numrecs unconstrained; the stride of the last dimension is the constant
     * STRIDE_LAST of this job, the other dimensions have stride 1 (stated bound: keeps every multiplication and
     * division in the checker by a constant) */
    g_stride[ND - 1] = STRIDE_LAST;
    for (int i = 0; i + 1 < ND; i++) g_stride[i] = 1;
#endif
    run_case();
    WITNESS_END();
    VH_RETURN;
}

static void run_case(void) {
    PNC pnc; PNC_var var; struct PNC_driver drv;
    MPI_Offset shape[ND], start[ND], count[ND], stride[ND];
    memset(&pnc, 0, sizeof pnc); memset(&drv, 0, sizeof drv);

    ASSUME(in.kind <= 3);
    NC_api kind = in.kind == 0 ? API_VAR1 : in.kind == 1 ? API_VARA : in.kind == 2 ? API_VARS : API_VARM;
    int is_rec = in.is_rec != 0, is_read = in.is_read != 0, strict = in.strict != 0;
    for (int i = 0; i < ND; i++) {
        ASSUME(in.shape[i] >= 0);                     /* dimension lengths are non-negative */
                shape[i] = in.shape[i]; start[i] = in.start[i]; count[i] = in.count[i]; stride[i] = g_stride[i];
    }
    pnc.format = in.cdf5 ? NC_FORMAT_CDF5 : NC_FORMAT_CDF2;
    ASSUME(in.numrecs >= 0);
    if (!in.cdf5) ASSUME(in.numrecs <= 4294967295LL);  /* record count of a CDF-1/2 file */
    g_numrecs = in.numrecs;
    drv.inq_dim = stub_inq_dim;
    pnc.driver = &drv; pnc.nvars = 1; pnc.vars = &var;
    pnc.flag = strict ? NC_MODE_STRICT_COORD_BOUND : 0;
    var.ndims = ND; var.recdim = is_rec ? 0 : -1; var.xtype = NC_INT; var.shape = shape;
    if (is_rec) shape[0] = 0;                          /* as stored for the unlimited dimension; refreshed via inq_dim */

    /* argument shapes exactly as the generated entry points pass them */
    const MPI_Offset *pc = count, *ps = stride;
    if (kind == API_VAR1) { pc = NULL; ps = NULL; }
    else { if (in.count_null) pc = NULL; if (kind == API_VARA) ps = NULL; }

#if defined(KF_EXCLUDE_C15_eedge_overflow) || defined(KF_ONLY_C15_eedge_overflow)
    {   /* listed finding: start+count or start+(count-1)*stride exceeds the signed 64-bit range */
        int ovf = 0;
        for (int i = 0; i < ND; i++) {
            i128 c = pc ? (i128)count[i] : 1;
            i128 a = (i128)start[i] + c;
            i128 m = ps ? MUL(c - 1, g_stride[i]) : c - 1;
            i128 b = (i128)start[i] + m;
            if (a > INT64_MAX || a < INT64_MIN || b > INT64_MAX || b < INT64_MIN || m > INT64_MAX || m < INT64_MIN) ovf = 1;
        }
#ifdef KF_EXCLUDE_C15_eedge_overflow
        ASSUME(!ovf);
#else
        ASSUME(ovf);
#endif
    }
#endif

    int err = check_start_count_stride(&pnc, 0, is_read, kind, start, pc, ps);

    /* ---------------- reference, written from the statement ---------------- */
    int bad_start = 0, bad_edge = 0, neg_cnt = 0, bad_stride = 0;
    for (int i = 0; i < ND; i++) {
        i128 s = start[i], c = pc ? (i128)count[i] : 1, st = ps ? (i128)stride[i] : 1;
        int recdim = is_rec && i == 0;
        i128 len = recdim ? (i128)in.numrecs : (i128)in.shape[i];
        if (s < 0) bad_start = 1;
        if (recdim && !in.cdf5 && s > 4294967295LL) bad_start = 1;
        if (!recdim || is_read) {                     /* the record dimension is unbounded for writes */
            if (recdim && len == 0 && c > 0) bad_start = 1;      /* reading from a variable without records */
            if (strict) { if (s >= len) bad_start = 1; }
            else { if (s > len) bad_start = 1; if (s == len && c > 0) bad_start = 1; }
        }
        if (pc) {
            if (c < 0) neg_cnt = 1;
            else if (!recdim || is_read) {
                if (c > len || s + c > len) bad_edge = 1;
                if (ps && c > 0 && s + MUL(c - 1, g_stride[i]) >= len) bad_edge = 1;
            }
            if (ps && st <= 0) bad_stride = 1;
        }
    }
    int count_missing = (pc == NULL && kind != API_VAR1);
    int fits = !bad_start && !bad_edge && !neg_cnt && !bad_stride && !count_missing;

    ASSERT((err == NC_NOERR) == fits, "accepted exactly when (start,count,stride) fits the current shape");
    if (!fits) ASSERT(err == NC_EINVALCOORDS || err == NC_EEDGE || err == NC_ESTRIDE || err == NC_ENEGATIVECNT,
                      "a rejected request gets one of the documented codes");
    if (bad_start) ASSERT(err == NC_EINVALCOORDS, "precedence: an invalid start is reported as NC_EINVALCOORDS first");
    else if (count_missing) ASSERT(err == NC_EEDGE, "vara/vars/varm with NULL count is NC_EEDGE");
    else if (bad_edge && !neg_cnt) ASSERT(err == NC_EEDGE, "precedence: NC_EEDGE before NC_ESTRIDE");
    else if (neg_cnt && !bad_edge) ASSERT(err == NC_ENEGATIVECNT, "negative count is NC_ENEGATIVECNT");
    else if (neg_cnt && bad_edge) ASSERT(err == NC_ENEGATIVECNT || err == NC_EEDGE, "negative count / edge: either code");
    else if (bad_stride) ASSERT(err == NC_ESTRIDE, "non-positive stride is NC_ESTRIDE");

    #if COVER_STRIDED
    COVER(fits && pc && ps && count[ND - 1] > 1 && stride[ND - 1] > 1, "accepted strided request");
    COVER(!fits && !bad_start && bad_edge && ps && stride[ND - 1] > 1, "strided request rejected with NC_EEDGE");
#endif
    COVER(fits && is_rec && !is_read && start[0] > in.numrecs, "write beyond current record count accepted");
    COVER(!strict && fits && pc && start[ND - 1] == in.shape[ND - 1] && count[ND - 1] == 0 && !(is_rec && ND == 1), "relaxed bound: start==shape with count 0");
    COVER(bad_start && is_rec && is_read, "read of a record past numrecs rejected");
}
