/* C16.c / C11 -- enddef-time fill of newly defined variables: fillerup_aggregate (static, ncmpio_fill.c).
 * Schema of NV variables (kinds KINDS concrete per job), the first NO of them pre-existing (old_ncp), old record count
 * <= 2, per-variable no_fill flags symbolic, NPROCS concrete, rank symbolic.  The MPI_Type_create_hindexed call that
 * describes the file regions to fill is captured.  Obligations:
 *   - exactly the new variables in fill mode are filled: one block per new fixed-size variable, and one per
 *     (new record variable, EXISTING record r < old numrecs) at begin + r * (NEW record size) + this rank's share;
 *   - no block for an old variable or a no-fill variable; blocks in increasing file order; bytes written = sum of blocks;
 *   - (INJECT) a failure of the fill write is returned.
 */
#include "vh.h"
#include "mpi_model.h"
#include <pnetcdf.h>
#include "u/ncmpio_fill.c"
#ifndef NV
#define NV 3
#endif
#ifndef NPROCS
#define NPROCS 2
#endif
struct inputs { long long nelem[NV], begin0, gap[NV], o_numrecs; int rank; unsigned char xsel[NV], nofill[NV]; struct vh_env env; };
static struct inputs in;
static char fh_c;
static NC nc, old; static NC_var v[NV], *vl[NV]; static MPI_Offset shp[NV][2], ds[NV][2];
int ncmpii_utf8_normalize(const char *s, char **out) { size_t n = strlen(s); *out = malloc(n + 1); memcpy(*out, s, n + 1); return NC_NOERR; }

VH_MAIN {
    VH_INPUTS(in0); in = in0;
    /* concrete per job: which variables are in no-fill mode, the number of existing records */
    for (int i = 0; i < NV; i++) in.nofill[i] = (NOFILL >> i) & 1;
    in.o_numrecs = ONUMRECS;
    ASSUME(in.rank >= 0 && in.rank < NPROCS && in.o_numrecs >= 0 && in.o_numrecs <= 2);
    ASSUME(in.begin0 >= 32 && in.begin0 < (1LL << 30) && (in.begin0 & 3) == 0);
    vh_env_reset(&in.env); vt_reset(in.rank, NPROCS);
#ifdef INJECT
    vt_inject_io = 1;
#endif
    /* layout as NC_begins produces it: fixed-size variables in id order, then the record section */
    long long e = in.begin0, recsize = 0, len[NV]; int nrec = 0;
    for (int i = 0; i < NV; i++) {
        int rec = (KINDS >> i) & 1;
        ASSUME(in.xsel[i] < 4 && in.nelem[i] >= 1 && in.nelem[i] <= 4 && in.gap[i] >= 0 && in.gap[i] < 4096 && (in.gap[i] & 3) == 0);
        int xsz = 1 << in.xsel[i];
        len[i] = (in.nelem[i] * xsz + 3) / 4 * 4;
        v[i].xsz = xsz; v[i].xtype = xsz == 1 ? NC_BYTE : xsz == 2 ? NC_SHORT : xsz == 4 ? NC_INT : NC_DOUBLE; v[i].no_fill = in.nofill[i] ? 1 : 0;
        v[i].shape = shp[i]; v[i].dsizes = ds[i]; v[i].len = len[i]; vl[i] = &v[i]; v[i].varid = i;
        if (rec) { v[i].ndims = 2; shp[i][0] = NC_UNLIMITED; shp[i][1] = in.nelem[i]; ds[i][0] = in.nelem[i]; ds[i][1] = in.nelem[i]; nrec++; }
        else { v[i].ndims = 1; shp[i][0] = in.nelem[i]; ds[i][0] = in.nelem[i]; v[i].begin = e + in.gap[i]; e = v[i].begin + len[i]; }
    }
    long long begin_rec = e + in.gap[0], r = begin_rec;
    for (int i = 0; i < NV; i++) if ((KINDS >> i) & 1) { v[i].begin = r; r += len[i]; recsize += len[i]; }
    nc.vars.ndefined = NV; nc.vars.num_rec_vars = nrec; nc.vars.value = vl; nc.recsize = recsize; nc.begin_rec = begin_rec;
    nc.rank = in.rank; nc.nprocs = NPROCS; nc.format = 5; nc.comm = MPI_COMM_WORLD; nc.collective_fh = (MPI_File)&fh_c; nc.numrecs = in.o_numrecs;
    long long o_recsize = 0; for (int i = 0; i < NO; i++) if ((KINDS >> i) & 1) o_recsize += len[i];
    old.vars.ndefined = NO; old.numrecs = in.o_numrecs; old.recsize = o_recsize;

    int err = fillerup_aggregate(&nc, NO > 0 ? &old : NULL);

    long long nrecs_exist = NO > 0 ? in.o_numrecs : 0;
#ifndef INJECT
    ASSERT(err == NC_NOERR, "fill of added variables succeeds when the I/O succeeds");
    /* expected blocks, in the order fixed variables (by id) then records */
    long long xoff[NV * 3], xlen[NV * 3]; int nx = 0, anyfill = 0;
    for (int pass = 0; pass < 3; pass++) for (int i = NO; i < NV; i++) {
        int rec = (KINDS >> i) & 1;
        if (in.nofill[i]) continue;
        if (pass == 0 && rec) continue;
        if (pass > 0 && (!rec || pass - 1 >= nrecs_exist)) continue;
        long long vlen = in.nelem[i], cnt = vlen / NPROCS, st = cnt * in.rank;
        if (in.rank < vlen % NPROCS) { st += in.rank; cnt++; } else st += vlen % NPROCS;
        xoff[nx] = v[i].begin + (rec ? recsize * (pass - 1) : 0) + st * v[i].xsz; xlen[nx] = cnt * v[i].xsz; nx++; anyfill = 1;
    }
    for (int i = NO; i < NV; i++) if (!in.nofill[i]) anyfill = 1;
    struct vt_type *ft = NULL; long long wbytes = -1;
    for (int k = 0; k < vt_n && k < VT_MAX; k++) { if (vt_ev[k].kind == EV_SET_VIEW && vt_type_of((MPI_Datatype)vt_ev[k].dtype)) ft = vt_type_of((MPI_Datatype)vt_ev[k].dtype);
                                                     if (vt_ev[k].kind == EV_WRITE_AT_ALL || vt_ev[k].kind == EV_WRITE_AT) wbytes = vt_ev[k].val; }
    if (nx > 0) {
        ASSERT(ft != NULL && ft->kind == T_HINDEXED && ft->n == nx, "one file block per new fill-mode variable and per (new record variable, existing record)");
        long long sum = 0;
        for (int k = 0; k < NV * 3; k++) if (k < nx && ft && k < VT_TARR) {
            ASSERT(ft->b[k] == xoff[k], "each block starts at the variable's offset (+ record * NEW record size) plus this rank's share");
            ASSERT(ft->a[k] == xlen[k], "each block has the length of this rank's share");
            if (k > 0) ASSERT(ft->b[k] >= ft->b[k - 1] + ft->a[k - 1], "blocks are in increasing file order and do not overlap");
            sum += xlen[k];
        }
        ASSERT(wbytes == sum, "the number of bytes written equals the sum of the blocks");
        ASSERT(vt_type_live == 0, "the file type is freed");
    } else if (!anyfill) ASSERT(vt_n == 0, "nothing is written when no new variable is in fill mode");
    COVER(nx >= 1 || !anyfill, "fill regions as expected for this job");
#else
    if (vt_io_failed) ASSERT(err != NC_NOERR, "a failure of the fill write is returned");
    COVER(vt_io_failed && err != NC_NOERR, "failed fill reported");
    COVER(vt_io_failed, "fill write failed");
#endif
    WITNESS_END();
    VH_RETURN;
}
