/* C16.b / C05.e / C08.c / C11 -- ncmpi_fill_var_rec's worker fill_var_rec (static, ncmpio_fill.c, textual inclusion)
 * with fill_var_buf, ncmpio_write_numrecs, ncmpii_error_mpi2nc real.  NPROCS concrete per job (division of the work).
 * The function is executed for two adjacent ranks r, r+1 of the same collective call (self-composition) from the same
 * file state, each with its own recno (safe mode off: ranks may pass different record numbers).
 *   C16.b  the ranks' byte ranges tile the variable's record: rank r ends where r+1 begins, rank 0 starts at the
 *          variable's offset (+ recno*recsize), the last rank ends at its end; buffer holds the fill value
 *   C05.e  afterwards numrecs = max(old, value agreed by Allreduce) >= recno+1 on EVERY rank; contribution = recno+1
 *   C08.c  both ranks make the same collective calls whatever their recno and whatever the current record count
 *   C11    (INJECT) an MPI-IO failure is returned, and the failing rank still makes the same collective calls
 */
#include "vh.h"
#include "mpi_model.h"
#include <pnetcdf.h>
#include "u/ncmpio_fill.c"
#ifndef NPROCS
#define NPROCS 2
#endif
struct inputs {
    long long var_len, begin, recsize, numrecs, recno[2];
    int rank; unsigned char is_rec, xsel, hcoll, have_fillatt; unsigned char fillv[8];
    struct vh_env env[2];
};
static struct inputs in;
static char fh_i, fh_c;
static NC nc; static NC_var var; static MPI_Offset shp[2], ds[2]; static NC_attr fa, *fal[1]; static NC_nametable fT[1]; static int ftl[1];
int ncmpii_utf8_normalize(const char *s, char **out) { size_t n = strlen(s); *out = malloc(n + 1); memcpy(*out, s, n + 1); return NC_NOERR; }
struct run { int err, n; struct vt_event ev[VT_MAX]; long long numrecs; int failed, anyfail; long long woff, wlen; unsigned char data[48]; };
static void setup(int rank) {
    int xsz = 1 << in.xsel;
    var.xsz = xsz; var.xtype = xsz == 1 ? NC_BYTE : xsz == 2 ? NC_SHORT : xsz == 4 ? NC_INT : NC_DOUBLE;
    var.shape = shp; var.dsizes = ds; var.begin = in.begin; var.no_fill = 0;
    if (in.is_rec) { var.ndims = 2; shp[0] = NC_UNLIMITED; shp[1] = in.var_len; ds[0] = in.var_len; ds[1] = in.var_len; }
    else { var.ndims = 1; shp[0] = in.var_len; ds[0] = in.var_len; }
    var.len = in.var_len * xsz;
    if (in.have_fillatt) { fa.xtype = var.xtype; fa.nelems = 1; fa.xsz = 4 > xsz ? 4 : xsz; fa.name = "_FillValue"; fa.name_len = 10; fa.xvalue = in.fillv;
        fal[0] = &fa; ftl[0] = 0; fT[0].num = 1; fT[0].list = ftl; var.attrs.ndefined = 1; var.attrs.value = fal; var.attrs.hash_size = 1; var.attrs.nameT = fT; }
    else { var.attrs.ndefined = 0; }
    nc.rank = rank; nc.nprocs = NPROCS; nc.format = 5; nc.numrecs = in.numrecs; nc.recsize = in.recsize; nc.comm = MPI_COMM_WORLD;
    nc.vars.num_rec_vars = in.is_rec ? 1 : 0; nc.flags = in.hcoll ? NC_HCOLL : 0;
    nc.independent_fh = (MPI_File)&fh_i; nc.collective_fh = (MPI_File)&fh_c;
}
static void go(struct run *R, int which) {
    setup(in.rank + which); vh_env_reset(&in.env[which]); vt_reset(in.rank + which, NPROCS);
#ifdef INJECT
    vt_inject_io = (which == 0);
#endif
    R->err = fill_var_rec(&nc, &var, in.recno[which]);
    R->n = vt_n; memcpy(R->ev, vt_ev, sizeof vt_ev); R->numrecs = nc.numrecs; R->failed = vt_io_failed; R->anyfail = vt_any_failed;
    R->woff = -1; R->wlen = -1;
    for (int k = 0; k < vt_n && k < VT_MAX; k++) if (vt_ev[k].kind == EV_WRITE_AT_ALL || vt_ev[k].kind == EV_WRITE_AT) { if (R->woff < 0) { R->woff = vt_ev[k].off; R->wlen = vt_ev[k].val; } }
}

VH_MAIN {
    VH_INPUTS(in0); in = in0;
    ASSUME(in.rank >= 0 && in.rank < NPROCS && (NPROCS == 1 || in.rank < NPROCS - 1));
    ASSUME(in.var_len >= 1 && in.var_len <= 6 && in.xsel < 4 && in.begin >= 32 && in.begin < (1LL << 40) && (in.begin & 3) == 0);
    ASSUME(in.numrecs >= 0 && in.numrecs < (1LL << 20) && in.recno[0] >= 0 && in.recno[0] < (1LL << 20) && in.recno[1] >= 0 && in.recno[1] < (1LL << 20));
    ASSUME(in.recsize >= in.var_len * (1 << in.xsel) && in.recsize < (1LL << 30));
#ifdef RECNO0
    in.recno[0] = RECNO0; in.recno[1] = RECNO1;   /* record numbers concrete per job: keeps recsize*recno a multiplication by a constant */
#endif
    if (!in.is_rec) { in.recno[0] = 0; in.recno[1] = 0; }
    int xsz = 1 << in.xsel;
    struct run A, B;
    go(&A, 0);
#if NPROCS > 1
    /* the Allreduce result is the same on every rank */
    long long agreed = -1; for (int k = 0; k < A.n; k++) if (A.ev[k].kind == EV_ALLREDUCE) agreed = A.ev[k].val;
    setup(in.rank + 1); vh_env_reset(&in.env[1]); vt_reset(in.rank + 1, NPROCS);
    if (agreed >= 0) { vt_force_cnt = 1; vt_force_val[0] = agreed; }
    vt_inject_io = 0;                     /* faults are injected on rank A only */
    B.err = fill_var_rec(&nc, &var, in.recno[1]);
    B.n = vt_n; memcpy(B.ev, vt_ev, sizeof vt_ev); B.numrecs = nc.numrecs; B.woff = -1; B.wlen = -1;
    for (int k = 0; k < vt_n && k < VT_MAX; k++) if (vt_ev[k].kind == EV_WRITE_AT_ALL) { if (B.woff < 0) { B.woff = vt_ev[k].off; B.wlen = vt_ev[k].val; } }
#endif
#ifndef INJECT
    ASSERT(A.err == NC_NOERR, "fill succeeds when the I/O succeeds");
    /* C16.b: division of the record among the processes */
    long long base0 = in.begin + (in.is_rec ? in.recsize * in.recno[0] : 0);
    ASSERT(A.woff >= base0 && A.woff + A.wlen <= base0 + in.var_len * xsz, "a rank fills only bytes inside the variable (record)");
    if (in.rank == 0) ASSERT(A.woff == base0, "rank 0 starts at the beginning of the variable (record)");
    ASSERT(A.wlen % xsz == 0, "whole elements are filled");
#if NPROCS > 1
    if (in.recno[0] == in.recno[1]) {
        ASSERT(A.woff + A.wlen == B.woff, "rank r's share ends exactly where rank r+1's begins (no gap, no overlap)");
        if (in.rank + 1 == NPROCS - 1) ASSERT(B.woff + B.wlen == base0 + in.var_len * xsz, "the last rank's share ends at the end of the variable (record)");
    }
    /* C08.c: same collective calls on both ranks, whatever recno and numrecs are */
    { int ia = 0, ib = 0, mism = 0;
      for (;;) { while (ia < A.n && !A.ev[ia].collective) ia++; while (ib < B.n && !B.ev[ib].collective) ib++;
                 if (ia >= A.n || ib >= B.n) break; if (A.ev[ia].kind != B.ev[ib].kind || A.ev[ia].handle != B.ev[ib].handle) mism = 1; ia++; ib++; }
      ASSERT(!mism && ia >= A.n && ib >= B.n, "both ranks make the same sequence of collective calls whatever record numbers they pass"); }
#if RECNO0 < RECNO1
    COVER(in.recno[0] < in.numrecs && in.recno[1] >= in.numrecs && in.is_rec, "ranks pass record numbers on both sides of the current record count");
#endif
#endif
    /* C05.e */
    if (in.is_rec) {
        long long red = NPROCS > 1 ? -1 : in.recno[0] + 1;
        for (int k = 0; k < A.n; k++) if (A.ev[k].kind == EV_ALLREDUCE) { red = A.ev[k].val; ASSERT(A.ev[k].own == in.recno[0] + 1, "a rank contributes recno+1 to the agreement"); }
        ASSERT(red >= 0, "a record fill agrees on the record count");
        ASSERT(A.numrecs == (in.numrecs > red ? in.numrecs : red), "after a record fill every rank holds max(old, agreed) as record count");
        ASSERT(A.numrecs >= in.recno[0] + 1, "the filled record is inside the record count");
#if NPROCS > 1
        ASSERT(B.numrecs == A.numrecs, "both ranks end with the same record count");
#endif
#if NPROCS > 2
        COVER(in.rank > 0 && A.numrecs > in.numrecs, "non-root rank raises its record count");
#endif
    } else ASSERT(A.numrecs == in.numrecs, "filling a fixed-size variable leaves the record count alone");
#if NPROCS <= 3
    COVER(in.have_fillatt && A.wlen > xsz, "user-defined fill value, several elements");
#else
    COVER(in.have_fillatt, "user-defined fill value");
#endif
#else
    /* C11 + C08.c under fault injection on rank A */
    if (A.failed) ASSERT(A.err != NC_NOERR, "an MPI-IO failure during the fill is returned");
#if NPROCS > 1
    { int ia = 0, ib = 0, mism = 0;
      for (;;) { while (ia < A.n && !A.ev[ia].collective) ia++; while (ib < B.n && !B.ev[ib].collective) ib++;
                 if (ia >= A.n || ib >= B.n) break; if (A.ev[ia].kind != B.ev[ib].kind) mism = 1; ia++; ib++; }
#ifdef KF_EXCLUDE_C08_fillrec_early_return
      if (!(A.err != NC_NOERR && A.anyfail && in.is_rec))   /* listed finding: early return of the failing rank before the Allreduce */
#endif
      ASSERT(!mism && ia >= A.n && ib >= B.n, "a rank whose write failed still makes the same collective calls as the others (nobody is left waiting)"); }
#endif
    COVER(A.failed && A.err != NC_NOERR, "failed fill reported");
#endif
    WITNESS_END();
    VH_RETURN;
}
