/* C11 -- one harness per library function that issues MPI-IO on behalf of an API call.
 * Every MPI-IO stub returns an arbitrary code at every call (any class, any call position, several at once);
 * ghost vt_io_failed = "a data-transfer call of a non-zero amount issued by this rank failed".
 * Obligation: vt_io_failed  =>  the function returns != NC_NOERR on this rank.
 * The site is selected with -DSITE_<x>; the unit that holds a static function is included textually.
 */
#include "vh.h"
#include "mpi_model.h"
#include <pnetcdf.h>
#include <dispatch.h>
#include <ncmpio_NC.h>

static char fh_i, fh_c;
struct inputs {
    long long a, b, c, d;        /* site-specific symbolic arguments */
    int rank, nprocs;
    unsigned char hcoll, indep, safe, f1, f2;
    struct vh_env env;
};
static struct inputs in;

#if defined(SITE_MOVE) || defined(SITE_WRITE_NC)
static int stub_hdr_put(NC *ncp, void *buf);
#define ncmpio_hdr_put_NC stub_hdr_put_wrap
static int stub_hdr_put_wrap(NC *ncp, void *buf) { return NC_NOERR; }
#include "u/ncmpio_enddef.c"
#undef ncmpio_hdr_put_NC
#endif
#ifdef SITE_WRITE_HEADER
#include "u/ncmpio_header_put.c"
MPI_Offset ncmpio_hdr_len_NC(const NC *ncp) { return in.a; }          /* header length: symbolic (cut: C03 checks it) */
int ncmpio_hdr_put_NC(NC *ncp, void *buf) { return NC_NOERR; }         /* encoder cut: C03 checks it */
#endif

#ifdef KF_SITE
#define GENERIC_ONLY() do { for (int i = 0; i < VH_ENV_N; i++) { int r = in.env.rc[i]; \
    ASSUME(!(r == MPI_ERR_FILE_EXISTS || r == MPI_ERR_NO_SUCH_FILE || r == MPI_ERR_NOT_SAME || r == MPI_ERR_AMODE || \
             r == MPI_ERR_READ_ONLY || r == MPI_ERR_ACCESS || r == MPI_ERR_BAD_FILE || r == MPI_ERR_NO_SPACE || r == MPI_ERR_QUOTA)); } } while (0)
#else
#define GENERIC_ONLY() do { } while (0)
#endif

VH_MAIN {
    VH_INPUTS(in0); in = in0;
    NC nc; memset(&nc, 0, sizeof nc);
#ifdef NPROCS
    ASSUME(in.nprocs == NPROCS && in.rank >= 0 && in.rank < NPROCS);
#else
    ASSUME(in.nprocs >= 1 && in.nprocs <= 4 && in.rank >= 0 && in.rank < in.nprocs);
#endif
    vh_env_reset(&in.env); vt_reset(in.rank, in.nprocs); vt_inject_io = 1;
    nc.rank = in.rank; nc.nprocs = in.nprocs; nc.format = 5;
    nc.flags = (in.hcoll ? NC_HCOLL : 0) | (in.indep ? NC_MODE_INDEP : 0);
    nc.safe_mode = in.safe ? 1 : 0;
    nc.independent_fh = (MPI_File)&fh_i; nc.collective_fh = (MPI_File)&fh_c;
    nc.comm = MPI_COMM_WORLD;
    GENERIC_ONLY();
    int err = NC_NOERR;

#ifdef SITE_MOVE
    /* move_file_block(to, from, nbytes): up to 2 rounds */
    ASSUME(in.a >= 0 && in.b >= 0 && in.a >= in.b && in.a < (1LL << 40) && in.c >= 0 && in.c <= 1LL * in.nprocs * 67108864LL + 1000);
    err = move_file_block(&nc, in.a, in.b, in.c);
    COVER(vt_count_kind(EV_READ_AT_ALL) == 2, "two rounds of data movement");
#endif
#ifdef SITE_WRITE_NC
    ASSUME(in.a >= 32 && in.a <= (1LL << 32));       /* header size: up to 3 write calls */
    nc.xsz = in.a; nc.begin_var = in.a;
    err = write_NC(&nc);
    COVER(in.rank == 0 && vt_count_kind(EV_WRITE_AT) + vt_count_kind(EV_WRITE_AT_ALL) == 3, "header written in three pieces");
#endif
#ifdef SITE_WRITE_HEADER
    ASSUME(in.a >= 32 && in.a <= (1LL << 32));
    err = ncmpio_write_header(&nc);
    COVER(in.rank == 0 && vt_count_kind(EV_WRITE_AT) + vt_count_kind(EV_WRITE_AT_ALL) == 3, "header written in three pieces");
#endif
#ifdef SITE_READ_WRITE
    {   /* ncmpio_read_write with a contiguous predefined buffer type (the derived-type branch needs MPI_Pack: C01/C10) */
        static char buf[8];
        ASSUME(in.b >= 0 && in.b <= 8 && in.a >= 0);
        nc.ibuf_size = in.c;                         /* packing-buffer hint: both sides of the request size */
        ASSUME(in.c >= 0 && in.c <= 16);
        err = ncmpio_read_write(&nc, in.f1 ? NC_REQ_WR : NC_REQ_RD, in.f2 ? NC_REQ_COLL : NC_REQ_INDEP, in.a, in.b, MPI_BYTE, buf,
                                in.hcoll /* re-used as "caller says buffer type is contiguous" */ ? 1 : 0);
        COVER(!in.hcoll && in.b > 0 && in.b <= in.c && in.f1 && !in.f2, "independent write through the packing buffer");
        COVER(!in.hcoll && in.b > 0 && in.b <= in.c && !in.f1 && in.f2 && in.nprocs > 1, "collective read through the packing buffer");
        COVER(in.f1 && in.f2 && in.nprocs > 1 && vt_count_kind(EV_WRITE_AT_ALL) == 1, "collective write");
        COVER(!in.f1 && !in.f2 && vt_count_kind(EV_READ_AT) == 1, "independent read");
    }
#endif
#ifdef SITE_FILE_SYNC
    err = ncmpio_file_sync(&nc);
    if (vt_any_failed) ASSERT(err != NC_NOERR, "a failed MPI_File_sync is reported");
    COVER(vt_count_kind(EV_SYNC) == 2, "both handles synced");
#endif
    if (vt_io_failed) ASSERT(err != NC_NOERR, "a failed data transfer is reported by the call that issued it");
#ifndef SITE_FILE_SYNC
    COVER(vt_io_failed && err != NC_NOERR, "failed transfer reported");
#else
    COVER(vt_any_failed && err != NC_NOERR, "failed sync reported");
#endif
    COVER(!vt_any_failed && vt_n > 0 && err == NC_NOERR, "all I/O succeeded");
    WITNESS_END();
    VH_RETURN;
}
