/* C11 (site: ncmpio_write_numrecs) and C05.a -- the record-count update of the file header.
 * Real code: ncmpio_write_numrecs() (ncmpio_sync.c) + ncmpii_error_mpi2nc() + ncmpix_put_uint32/64.
 * Symbolic: NC state (flags, rank, nprocs, format, numrecs), new_numrecs, and the MPI-IO answers (any return code =
 * any error class at the write).
 *   CHECK_C11: a failed data transfer is never turned into NC_NOERR on the rank that issued it.
 *   CHECK_C05: numrecs never decreases, becomes max(old,new) on the writing rank, and the bytes written at offset 4
 *              are its big-endian image (4 bytes CDF-1/2, 8 bytes CDF-5); only the root writes unless NC_HCOLL.
 */
#include "vh.h"
#include "mpi_model.h"
#include <pnetcdf.h>
#include <dispatch.h>
#include <ncmpio_NC.h>

struct inputs {
    long long numrecs, new_numrecs;
    int rank, nprocs;
    unsigned char hcoll, indep, ndirty, fmt;
    struct vh_env env;
};
static char fh_i, fh_c;

VH_MAIN {
    VH_INPUTS(in);
    NC nc; memset(&nc, 0, sizeof nc);
    ASSUME(in.nprocs >= 1 && in.nprocs <= 8 && in.rank >= 0 && in.rank < in.nprocs);
    ASSUME(in.fmt == 1 || in.fmt == 2 || in.fmt == 5);
    ASSUME(in.numrecs >= 0 && in.new_numrecs >= 0);
    if (in.fmt < 5) ASSUME(in.numrecs <= 4294967295LL);          /* value read from / accepted into a CDF-1/2 header */
    vh_env_reset(&in.env); vt_reset(in.rank, in.nprocs); vt_inject_io = 1;
    nc.rank = in.rank; nc.nprocs = in.nprocs; nc.format = in.fmt; nc.numrecs = in.numrecs;
    nc.flags = (in.hcoll ? NC_HCOLL : 0) | (in.indep ? NC_MODE_INDEP : 0) | (in.ndirty ? NC_NDIRTY : 0);
    nc.vars.num_rec_vars = 1;
    nc.independent_fh = (MPI_File)&fh_i; nc.collective_fh = (MPI_File)&fh_c;
    unsigned char img[16]; memset(img, 0xEE, sizeof img); vt_file = img; vt_file_len = sizeof img;

#ifdef KF_EXCLUDE_C11_numrecs_errclass
    /* listed finding: any class other than the generic one is dropped at this site */
    for (int i = 0; i < VH_ENV_N; i++) ASSUME(in.env.rc[i] == MPI_SUCCESS || !(in.env.rc[i] == MPI_ERR_FILE_EXISTS || in.env.rc[i] == MPI_ERR_NO_SUCH_FILE || in.env.rc[i] == MPI_ERR_NOT_SAME || in.env.rc[i] == MPI_ERR_AMODE || in.env.rc[i] == MPI_ERR_READ_ONLY || in.env.rc[i] == MPI_ERR_ACCESS || in.env.rc[i] == MPI_ERR_BAD_FILE || in.env.rc[i] == MPI_ERR_NO_SPACE || in.env.rc[i] == MPI_ERR_QUOTA));
#endif
    int err = ncmpio_write_numrecs(&nc, in.new_numrecs);

    long long want = in.numrecs > in.new_numrecs ? in.numrecs : in.new_numrecs;
    int root_writes = (in.rank == 0);
#ifdef CHECK_C11
    if (vt_io_failed) ASSERT(err != NC_NOERR, "a failed header (numrecs) write is reported on the rank that issued it");
    COVER(vt_io_failed && err != NC_NOERR, "failed write reported");
    COVER(!vt_io_failed && vt_count_kind(EV_WRITE_AT) == 1 && err == NC_NOERR, "successful write");
#endif
#ifdef CHECK_C05
    ASSERT(nc.numrecs >= in.numrecs, "the record count never decreases");
    if (!in.hcoll && in.rank > 0) ASSERT(vt_n == 0, "without collective header I/O only the root touches the file");
    if (root_writes && err == NC_NOERR) {
        ASSERT(nc.numrecs == want, "root: in-memory record count becomes max(old,new)");
        int wrote = vt_count_kind(EV_WRITE_AT) + vt_count_kind(EV_WRITE_AT_ALL);
        if (in.new_numrecs > in.numrecs || in.ndirty) {
            ASSERT(wrote == 1, "a grown or dirty record count is written exactly once");
            int len = in.fmt < 5 ? 4 : 8;
            ASSERT(vt_ev[0].off == 4 && vt_ev[0].count == len && vt_ev[0].dtype == (const void *)MPI_BYTE, "numrecs is written at file offset 4 with the width of the format");
            if (!vt_any_failed) {
                unsigned long long v = 0; for (int k = 0; k < len; k++) v = (v << 8) | img[4 + k];
                ASSERT(v == (unsigned long long)want, "the bytes in the file are the big-endian image of the record count");
                ASSERT(img[3] == 0xEE && img[4 + len] == 0xEE, "no byte outside the numrecs field is written");
            }
        } else ASSERT(wrote == 0, "unchanged record count is not rewritten");
    }
    if (in.fmt < 5 && root_writes && want > 2147483647LL && (in.new_numrecs > in.numrecs || in.ndirty))
        ASSERT(err == NC_EINTOVERFLOW, "CDF-1/2: a record count beyond 2^31-1 is refused");
    COVER(root_writes && err == NC_NOERR && in.new_numrecs > in.numrecs && in.fmt == 5 && !vt_any_failed, "CDF-5 numrecs grown and written");
    COVER(root_writes && err == NC_NOERR && in.new_numrecs > in.numrecs && in.fmt == 1 && !vt_any_failed, "CDF-1 numrecs grown and written");
    COVER(in.hcoll && in.rank > 0 && vt_n == 1, "non-root joins the collective header write");
#endif
    WITNESS_END();
    VH_RETURN;
}
