/* C17.a -- file-id table of src/dispatchers/file.c (static pnc_filelist[] / pnc_numfiles reached by textual
 * inclusion; NC_MAX_NFILES set to NF for the bounded table, the code is generic in it).
 * One inductive step from an ARBITRARY table state satisfying the representation invariant
 *     I:  pnc_numfiles == number of non-NULL slots
 * for each operation: PNC_check_id (any int id), new_id_PNCList, del_from_PNCList, ncmpi_inq_files_opened.
 */
#include "vh.h"
#include <mpi.h>
#include <pnetcdf.h>
#undef NC_MAX_NFILES
#define NC_MAX_NFILES NF
#include "u/file.c"

struct inputs {
    unsigned char occ[NF];     /* which slots hold an open file */
    int ncid;                  /* arbitrary id handed to the operation */
    unsigned char op;
};

static PNC objs[NF], fresh;

VH_MAIN {
    VH_INPUTS(in);
    int n = 0, lowest_free = -1;
    for (int i = 0; i < NF; i++) {
        pnc_filelist[i] = in.occ[i] ? &objs[i] : NULL;
        if (in.occ[i]) n++; else if (lowest_free < 0) lowest_free = i;
    }
    pnc_numfiles = n;                                         /* invariant I */
    PNC *before[NF];
    for (int i = 0; i < NF; i++) before[i] = pnc_filelist[i];
    int open_id = in.ncid >= 0 && in.ncid < NF && in.occ[in.ncid >= 0 && in.ncid < NF ? in.ncid : 0];

    ASSUME(in.op < 4);
    if (in.op == 0) {
        PNC *p = (PNC *)0x1;   /* poison: must not be relied upon unless NC_NOERR */
        p = NULL;
        int err = PNC_check_id(in.ncid, &p);
#ifdef KF_EXCLUDE_C17_checkid_null
        ASSUME(!(n > 0 && in.ncid >= 0 && in.ncid < NF && !in.occ[in.ncid]));
#endif
#ifdef KF_ONLY_C17_checkid_null
        ASSUME(n > 0 && in.ncid >= 0 && in.ncid < NF && !in.occ[in.ncid]);
#endif
        ASSERT((err == NC_NOERR) == open_id, "PNC_check_id succeeds exactly for a currently open id");
        if (!open_id) ASSERT(err == NC_EBADID, "an id that is not open yields NC_EBADID");
        if (err == NC_NOERR) ASSERT(p == &objs[in.ncid], "on success the object of that id is returned (never NULL)");
        for (int i = 0; i < NF; i++) ASSERT(pnc_filelist[i] == before[i], "check_id does not modify the table");
        COVER(err == NC_NOERR, "valid id");
#ifndef KF_EXCLUDE_C17_checkid_null
        COVER(n > 0 && in.ncid >= 0 && in.ncid < NF && !in.occ[in.ncid], "closed id while another file is open");
#endif
        COVER(in.ncid >= NF, "huge id");
        COVER(in.ncid < 0, "negative id");
    } else if (in.op == 1) {
        int id = 12345;
        int err = new_id_PNCList(&id, &fresh);
        if (n == NF) {
            ASSERT(err == NC_ENFILE, "table full: NC_ENFILE");
            for (int i = 0; i < NF; i++) ASSERT(pnc_filelist[i] == before[i], "a refused open leaves the table unchanged");
            ASSERT(pnc_numfiles == n, "count unchanged on NC_ENFILE");
        } else {
            ASSERT(err == NC_NOERR, "a free slot exists: a new id is issued (the documented maximum can be reached)");
            ASSERT(id >= 0 && id < NF && before[id >= 0 && id < NF ? id : 0] == NULL, "the new id is a slot that was free (ids of closed files are reissued)");
            ASSERT(pnc_numfiles == n + 1, "count incremented");
            for (int i = 0; i < NF; i++)
                ASSERT(pnc_filelist[i] == (i == id ? &fresh : before[i]), "only the issued slot changes");
        }
        COVER(n == NF, "table full");
        COVER(n < NF && lowest_free > 0 && in.occ[NF - 1], "hole below the highest open id is reused");
        COVER(n == NF - 1 && err == NC_NOERR, "last free slot issued");
    } else if (in.op == 2) {
        ASSUME(open_id);                 /* callers validate the id first (ncmpi_close, ncmpi_abort) */
        del_from_PNCList(in.ncid);
        ASSERT(pnc_numfiles == n - 1, "count decremented");
        for (int i = 0; i < NF; i++) ASSERT(pnc_filelist[i] == (i == in.ncid ? NULL : before[i]), "only the closed slot is cleared");
        COVER(n > 1, "close one of several");
    } else {
        int num = -1, ids[NF];
        for (int i = 0; i < NF; i++) ids[i] = -1;
        int err = ncmpi_inq_files_opened(&num, ids);
        ASSERT(err == NC_NOERR && num == n, "inq_files_opened reports the number of open files");
        int k = 0;
        for (int i = 0; i < NF; i++) if (in.occ[i]) { ASSERT(ids[k] == i, "inq_files_opened lists exactly the open ids in order"); k++; }
        COVER(n >= 2, "several open");
    }
    WITNESS_END();
    VH_RETURN;
}
