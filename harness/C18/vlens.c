/* C18.a -- format size rules at enddef: ncmpio_NC_check_vlens / ncmpio_NC_check_vlen (ncmpio_enddef.c).
 * NV variables in any order, each fixed-size or record, element size 1/2/4/8, one sized dimension with a FULL 64-bit
 * symbolic length; format CDF-1/2/5.  Obligation: NC_NOERR exactly when the rule table written from the specification
 * holds, NC_EVARSIZE otherwise:
 *   CDF-5: every variable (one record of it) <= 2^63-4 bytes
 *   CDF-1 (limit 2^31-4) / CDF-2 (limit 2^32-4): at most one fixed-size variable may exceed the limit, it must be the
 *   last fixed-size variable and then no record variable may exist; at most one record variable may exceed it and it
 *   must be the last record variable.
 */
#include "vh.h"
#include <mpi.h>
#include <pnetcdf.h>
#include <dispatch.h>
#include <ncmpio_NC.h>
#ifndef NV
#define NV 3
#endif
typedef __int128 i128;
struct inputs { unsigned char nv, fmt, is_rec[NV], xsel[NV]; long long size[NV]; };
static NC nc; static NC_var vars[NV], *vlist[NV]; static MPI_Offset shp[NV][2];

VH_MAIN {
    VH_INPUTS(in);
    int nv = in.nv; ASSUME(nv <= NV && (in.fmt == 1 || in.fmt == 2 || in.fmt == 5));
    i128 limit = in.fmt == 5 ? (((i128)1 << 63) - 4) : in.fmt == 2 ? (((i128)1 << 32) - 4) : (((i128)1 << 31) - 4);
    int big[NV], nbigF = 0, nbigR = 0, nR = 0, lastF = -1, lastR = -1;
    for (int i = 0; i < NV; i++) {
        ASSUME(in.xsel[i] < 4 && in.size[i] >= 0);
        int xsz = 1 << in.xsel[i];
        vars[i].xsz = xsz; vars[i].shape = shp[i]; vlist[i] = &vars[i];
        if (in.is_rec[i]) { vars[i].ndims = 2; shp[i][0] = NC_UNLIMITED; shp[i][1] = in.size[i]; }
        else { vars[i].ndims = 1; shp[i][0] = in.size[i]; ASSUME(in.size[i] != NC_UNLIMITED); }
        big[i] = ((i128)xsz * in.size[i] > limit);
        if (i < nv) { if (in.is_rec[i]) { nR++; lastR = i; nbigR += big[i]; } else { lastF = i; nbigF += big[i]; } }
    }
    nc.format = in.fmt; nc.vars.ndefined = nv; nc.vars.value = vlist;
    int err = ncmpio_NC_check_vlens(&nc);

    int ok;
    if (in.fmt == 5) ok = (nbigF + nbigR == 0);
    else {
        ok = 1;
        if (nbigF > 1) ok = 0;
        if (nbigF == 1 && !big[lastF >= 0 ? lastF : 0]) ok = 0;
        if (nbigF == 1 && nR > 0) ok = 0;
        if (nbigR > 1) ok = 0;
        if (nbigR == 1 && !big[lastR >= 0 ? lastR : 0]) ok = 0;
    }
    ASSERT((err == NC_NOERR) == ok, "enddef's size check succeeds exactly when the definitions satisfy the format's size rules");
    if (!ok) ASSERT(err == NC_EVARSIZE, "a violated size rule is reported as NC_EVARSIZE");
    COVER(ok && nbigF == 1 && nv == NV, "one oversize fixed variable in last position accepted");
    COVER(!ok && nbigF == 2 && in.fmt == 2, "two oversize fixed variables rejected (CDF-2)");
    COVER(ok && nbigR == 1 && nR >= 2, "oversize last record variable accepted");
    COVER(!ok && in.fmt == 5, "CDF-5 variable beyond 2^63-4 rejected");
    WITNESS_END();
    VH_RETURN;
}
