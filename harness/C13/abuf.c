/* C13.d -- attached-buffer accounting: ncmpio_abuf_malloc / ncmpio_abuf_dealloc (ncmpio_i_getput.m4),
 * abuf_coalesce (static in ncmpio_wait.c, exported by the patched unit), usage report of ncmpio_inq_misc.
 * One inductive step from ANY allocator state satisfying
 *    A: 0 <= tail < table_size; size_used = sum_{i<tail} req_size[i] <= size_allocated; req_size >= 0;
 *       slots >= tail unused; tail == 0 or the entry below... (no condition: completed entries may sit anywhere below tail)
 * Obligations: A again; a granted slice lies inside the attached buffer and is disjoint from every slice still in use;
 * after coalesce the tail is just above the highest entry in use; usage >= bytes of pending buffered puts, equal when no
 * completed entry lies below a pending one, 0 when nothing is pending.
 */
#include "vh.h"
#include <mpi.h>
#include <pnetcdf.h>
#include <dispatch.h>
#include <ncmpio_NC.h>
#include <ncmpio_driver.h>
#define NS 4
struct inputs { int tail; long long req_size[NS]; unsigned char used[NS]; long long size_allocated, nbytes; unsigned char op; };
int vh_call_abuf_coalesce(NC *ncp);
int vh_wait_getput(NC *ncp, int n, NC_req *r, int rw, int ci, MPI_Offset nn) { return NC_NOERR; }   /* not reached here */
int ncmpio_abuf_malloc(NC *ncp, MPI_Offset nbytes, void **buf, int *abuf_index);
int ncmpio_abuf_dealloc(NC *ncp, int abuf_index);
static NC nc; static NC_buf ab; static NC_buf_status occ[NC_ABUF_DEFAULT_TABLE_SIZE]; static char pool[64];

VH_MAIN {
    VH_INPUTS(in);
    ASSUME(in.tail >= 0 && in.tail <= NS - 1 && in.size_allocated >= 1 && in.size_allocated <= 64);
    long long used_sum = 0, pending = 0; int hole = 0, seen_used = 0;
    long long off[NS];
    for (int i = 0; i < NS; i++) {
        off[i] = used_sum;
        if (i < in.tail) {
            ASSUME(in.req_size[i] >= 1 && in.req_size[i] <= 64);
            occ[i].req_size = in.req_size[i]; occ[i].is_used = in.used[i] ? 1 : 0;
            used_sum += in.req_size[i];
            if (in.used[i]) pending += in.req_size[i];
        } else { occ[i].req_size = 0; occ[i].is_used = 0; }
    }
    for (int i = in.tail - 1; i >= 0; i--) { if (in.used[i]) seen_used = 1; else if (seen_used) hole = 1; }
    if (in.tail > 0) ASSUME(in.used[in.tail - 1]);       /* A: coalescing stops at the highest entry in use */
    ASSUME(used_sum <= in.size_allocated);
    ab.size_allocated = in.size_allocated; ab.size_used = used_sum; ab.table_size = NC_ABUF_DEFAULT_TABLE_SIZE; ab.tail = in.tail;
    ab.occupy_table = occ; ab.buf = pool; nc.abuf = &ab;
    ASSUME(in.op < 3);
    if (in.op == 0) {            /* bput posting: space test of ncmpio_igetput_varm, then the allocation */
        ASSUME(in.nbytes >= 1 && in.nbytes <= 64);
        int refused = (ab.size_allocated - ab.size_used < in.nbytes);
        ASSERT(refused == (in.size_allocated - used_sum < in.nbytes), "a buffered put is refused exactly when the remaining space is too small");
        if (!refused) {
            void *p = NULL; int idx = -1;
            int err = ncmpio_abuf_malloc(&nc, in.nbytes, &p, &idx);
            ASSERT(err == NC_NOERR && idx == in.tail && ab.tail == in.tail + 1, "the new entry is appended at the tail");
            long long o = (char *)p - pool;
            ASSERT(o >= 0 && o + in.nbytes <= in.size_allocated, "the granted slice lies inside the attached buffer");
            for (int i = 0; i < NS; i++) if (i < in.tail && in.used[i])
                ASSERT(o >= off[i] + in.req_size[i] || o + in.nbytes <= off[i], "the granted slice does not overlap a slice still in use");
            ASSERT(ab.size_used == used_sum + in.nbytes && occ[in.tail].is_used == 1 && occ[in.tail].req_size == in.nbytes, "accounting after allocation");
            COVER(in.tail == 2 && !in.used[0], "allocation above a completed entry");
        }
        COVER(refused, "refused for insufficient space");
    } else if (in.op == 1) {     /* a failed posting gives the slice back (tail entry) */
        ASSUME(in.tail >= 1);
        ncmpio_abuf_dealloc(&nc, in.tail - 1);
        ASSERT(ab.tail == in.tail - 1 && ab.size_used == used_sum - in.req_size[in.tail - 1] && occ[in.tail - 1].is_used == 0, "dealloc of the tail entry restores the accounting");
        COVER(in.tail == 3, "dealloc with entries below");
    } else {                     /* completion/cancel: entries are marked unused by the caller, then coalesced */
        unsigned char mark[NS];
        for (int i = 0; i < NS; i++) mark[i] = in.used[i];
        if (in.tail > 0) { ASSUME(in.nbytes >= 0 && in.nbytes < NS); if (in.nbytes < in.tail) { occ[in.nbytes].is_used = 0; mark[in.nbytes] = 0; } }
        vh_call_abuf_coalesce(&nc);
        int newtail = 0; long long sum = 0, pend = 0; int hole2 = 0, su = 0;
        for (int i = 0; i < NS; i++) if (i < in.tail && mark[i]) newtail = i + 1;
        for (int i = 0; i < NS; i++) if (i < newtail) { sum += in.req_size[i]; if (mark[i]) pend += in.req_size[i]; }
        for (int i = newtail - 1; i >= 0; i--) { if (mark[i]) su = 1; else if (su) hole2 = 1; }
        ASSERT(ab.tail == newtail, "after coalescing the tail is just above the highest entry still in use");
        ASSERT(ab.size_used == sum, "size_used is the sum of the entries below the tail");
        ASSERT(ab.size_used >= pend, "reported usage is never below the bytes of pending buffered puts");
        if (pend == 0) ASSERT(ab.size_used == 0, "usage is zero when no buffered put is pending");
#ifndef KF_EXCLUDE_C13_abuf_usage_holes
        ASSERT(ab.size_used == pend, "reported usage equals the bytes of pending buffered puts");
#else
        if (!hole2) ASSERT(ab.size_used == pend, "reported usage equals the bytes of pending buffered puts (no completed entry below a pending one)");
#endif
#ifdef KF_ONLY_C13_abuf_usage_holes
        ASSUME(hole2);
#endif
        COVER(hole2, "a completed entry lies below a pending one");
        COVER(newtail < in.tail && newtail > 0, "coalescing released the top entries");
    }
    (void)hole; (void)pending;
    WITNESS_END();
    VH_RETURN;
}
