/* C13.b -- ncmpii_in_swapn (convert_swap.m4): byte reversal of each element, involution, touches exactly n*esize bytes */
#include "vh.h"
#include <mpi.h>
#include <pnetcdf.h>
#include <common.h>
#ifndef NEL
#define NEL 3
#endif
struct inputs { unsigned char b[NEL * 8 + 2]; unsigned char esel, n; };
VH_MAIN {
    VH_INPUTS(in);
#ifdef ESEL
    in.esel = ESEL;
#endif
    ASSUME(in.esel < 4 && in.n <= NEL);
    int esize = in.esel == 0 ? 1 : in.esel == 1 ? 2 : in.esel == 2 ? 4 : 8;
    _Alignas(8) unsigned char buf[NEL * 8 + 2];
    memcpy(buf, in.b, sizeof buf);
    ncmpii_in_swapn(buf, in.n, esize);
    for (int e = 0; e < NEL; e++) for (int k = 0; k < 8; k++) {
        int idx = e * esize + k;
        if (e < in.n && k < esize) ASSERT(buf[idx] == in.b[e * esize + (esize - 1 - k)], "each element is byte-reversed in place");
    }
    for (int i = 0; i < (int)sizeof buf; i++) if (i >= in.n * esize) ASSERT(buf[i] == in.b[i], "bytes beyond n*esize are untouched");
    ncmpii_in_swapn(buf, in.n, esize);
    ASSERT(memcmp(buf, in.b, sizeof buf) == 0, "swapping twice restores the buffer (involution)");
    COVER(in.n == NEL, "all elements swapped");
    COVER(in.n == 0, "empty request");
    WITNESS_END();
    VH_RETURN;
}
