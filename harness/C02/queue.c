/* C02 (b,c,d) / C05.c / C13.c -- surgery on the queues of pending nonblocking requests.
 * Real code (src/drivers/ncmpio/ncmpio_wait.c, own TU with wait_getput cut out): extract_reqs, req_commit,
 * ncmpio_cancel, abuf_coalesce, ncmpii_in_swapn (convert_swap.m4).
 * Pre-state: ANY pair of queues satisfying the representation invariant
 *    Q: leads' (nonlead_off, nonlead_num) tile [0,numReqs) in order; every sub-request's lead_off points back;
 *       ids pairwise distinct, even for put / odd for get
 * with NP<=3 put leads and NG<=1 get lead of 1..2 sub-requests each; arbitrary request-id array of <=4 entries
 * (any order, NC_REQ_NULL holes, unknown ids), statuses NULL or not, collective or independent, any nprocs<=4.
 * One operation, then the obligations below (histories of any length by induction on Q).
 */
#include "vh.h"
#include "mpi_model.h"
#include <pnetcdf.h>
#include <dispatch.h>
#include <ncmpio_NC.h>
#include <ncmpio_driver.h>

#define NPMAX 3
#define NGMAX 1
#define NIDS 4
struct inputs {
    unsigned char np, ng;
    unsigned char p_num[NPMAX], g_num[NGMAX];
    int p_id[NPMAX], g_id[NGMAX];
    unsigned char p_rec[NPMAX], p_skip[NPMAX], p_swap[NPMAX], p_abuf[NPMAX];
    long long p_maxrec[NPMAX];
    int num_reqs, req_ids[NIDS];
    unsigned char st_null, coll;
    long long numrecs; int nprocs, rank;
    int wg_rc[2];                      /* outcome of the I/O layer for the write and the read batch */
    unsigned int buf[NPMAX][2];
    struct vh_env env;
};
static struct inputs in;
static NC nc; static NC_var var_rec, var_fix; static MPI_Offset shp_rec[1] = { NC_UNLIMITED }, shp_fix[1] = { 8 };
static NC_buf abuf; static NC_buf_status occ[NPMAX];
static char fh_i, fh_c;

#ifndef REPLAY
/* model cut: realloc() of a request list keeps the block in place (the library re-sizes its lists to multiples of
 * NC_REQUEST_CHUNK=1024 entries; only the first numReqs entries are ever accessed) */
void *realloc(void *p, size_t n) { return p; }
#endif
/* entry points exported by the patched unit */
int vh_call_extract_reqs(NC *, int, int *, int *, int *, int *, NC_req **, int *, int *, NC_req **);
int vh_call_req_commit(NC *, int, int *, int *, int);

/* ---- cut: the I/O layer below req_commit ---- */
static struct { int n, rw, coll; long long newnumrecs; long long tags[8]; } wg[2]; static int wg_calls;
int vh_wait_getput(NC *ncp, int num_reqs, NC_req *reqs, int rw_flag, int coll_indep, MPI_Offset newnumrecs) {
    ASSUME(wg_calls < 2);
    wg[wg_calls].n = num_reqs; wg[wg_calls].rw = rw_flag; wg[wg_calls].coll = coll_indep; wg[wg_calls].newnumrecs = newnumrecs;
    for (int k = 0; k < num_reqs && k < 8; k++) wg[wg_calls].tags[k] = reqs[k].offset_start;
    free(reqs);                                       /* the real wait_getput frees the extracted list */
    return in.wg_rc[wg_calls++];
}
int ncmpio_unpack_xbuf(int fmt, NC_var *varp, MPI_Offset bufcount, MPI_Datatype buftype, int buftype_is_contig, MPI_Offset nelems,
                       MPI_Datatype itype, MPI_Datatype imaptype, int need_convert, int need_swap, void *buf, void *xbuf) { return NC_NOERR; }

/* cut: ncmpii_in_swapn replaced by a per-buffer call counter (its involution is decided in C13.b) */
static unsigned int (*g_bufs)[2]; static int swapcnt[NPMAX], swap_other;
void ncmpii_in_swapn(void *buf, MPI_Offset nelems, int esize) {
    int hit = 0;
    for (int j = 0; j < NPMAX; j++) if (buf == (void *)g_bufs[j]) { swapcnt[j]++; hit = 1; if (nelems != 2 || esize != 4) swap_other = 1; }
    if (!hit) swap_other = 1;
}
static int named_put(int j) { for (int i = 0; i < in.num_reqs && i < NIDS; i++) if (in.req_ids[i] == in.p_id[j]) return 1; return 0; }
static int named_get(int j) { for (int i = 0; i < in.num_reqs && i < NIDS; i++) if (in.req_ids[i] == in.g_id[j]) return 1; return 0; }
static int pos_of(int id) { for (int i = 0; i < in.num_reqs && i < NIDS; i++) if (in.req_ids[i] == id) return i; return -1; }

VH_MAIN {
    VH_INPUTS(in0); in = in0;
    /* queue SHAPE (number of leads, sub-requests per lead) is concrete per job; the runner enumerates the shapes */
    in.np = NP; in.ng = NG;
    { static const unsigned char pn[NPMAX] = { PN0, PN1, PN2 }; for (int j = 0; j < NPMAX; j++) in.p_num[j] = pn[j]; in.g_num[0] = GN0; }
#ifdef DBG_NREQ
    in.num_reqs = DBG_NREQ;
#endif
#ifdef DBG_STNULL
    in.st_null = DBG_STNULL;
#endif
    int np = in.np, ng = in.ng;
    ASSUME(np <= NPMAX && ng <= NGMAX && in.nprocs >= 1 && in.nprocs <= 4 && in.rank >= 0 && in.rank < in.nprocs);
    ASSUME(in.numrecs >= 0 && in.numrecs < (1LL << 31));
    vh_env_reset(&in.env); vt_reset(in.rank, in.nprocs);
    var_rec.xsz = 4; var_rec.xtype = NC_INT; var_rec.ndims = 1; var_rec.shape = shp_rec;
    var_fix.xsz = 4; var_fix.xtype = NC_INT; var_fix.ndims = 1; var_fix.shape = shp_fix;
    nc.nprocs = in.nprocs; nc.rank = in.rank; nc.numrecs = in.numrecs; nc.my_aggr = -1; nc.format = 5; nc.comm = MPI_COMM_WORLD;
    nc.flags = in.coll ? 0 : NC_MODE_INDEP;
    nc.independent_fh = (MPI_File)&fh_i; nc.collective_fh = (MPI_File)&fh_c;
    /* ---- queues satisfying Q ---- */
    static unsigned int bufs[NPMAX][2]; g_bufs = bufs;
    int ptot = 0, gtot = 0, nabuf = 0;
    NC_lead_req *pl = np ? malloc(NPMAX * sizeof(NC_lead_req)) : NULL;
    NC_req *pr = np ? malloc(2 * NPMAX * sizeof(NC_req)) : NULL;
    NC_lead_req *gl = ng ? malloc(NGMAX * sizeof(NC_lead_req)) : NULL;
    NC_req *gr = ng ? malloc(2 * NGMAX * sizeof(NC_req)) : NULL;
    int p_off[NPMAX];
    for (int j = 0; j < NPMAX; j++) if (j < np) {
        ASSUME(in.p_num[j] >= 1 && in.p_num[j] <= 2 && in.p_id[j] >= 0 && in.p_id[j] % 2 == 0 && in.p_id[j] < 1000);
        for (int k = 0; k < j; k++) ASSUME(in.p_id[k] != in.p_id[j]);
        ASSUME(in.p_maxrec[j] >= 0 && in.p_maxrec[j] < (1LL << 31));
        memset(&pl[j], 0, sizeof pl[j]);
        bufs[j][0] = in.buf[j][0]; bufs[j][1] = in.buf[j][1];
        pl[j].id = in.p_id[j]; pl[j].nonlead_off = ptot; pl[j].nonlead_num = in.p_num[j]; p_off[j] = ptot;
        pl[j].flag = (in.p_swap[j] ? NC_REQ_BUF_BYTE_SWAP : 0) | (in.p_skip[j] ? NC_REQ_SKIP : 0);
        pl[j].varp = in.p_rec[j] ? &var_rec : &var_fix; pl[j].max_rec = in.p_rec[j] ? in.p_maxrec[j] : -1;
        pl[j].buf = bufs[j]; pl[j].xbuf = bufs[j]; pl[j].nelems = 2; pl[j].buftype = MPI_DATATYPE_NULL; pl[j].imaptype = MPI_DATATYPE_NULL;
        pl[j].start = malloc(3 * sizeof(MPI_Offset));
        pl[j].abuf_index = -1;
        if (in.p_abuf[j]) { ASSUME(!in.p_swap[j]); pl[j].abuf_index = nabuf; occ[nabuf].is_used = 1; occ[nabuf].req_size = 8; nabuf++; }
        for (int k = 0; k < in.p_num[j]; k++) { memset(&pr[ptot], 0, sizeof pr[0]); pr[ptot].lead_off = j; pr[ptot].offset_start = 1000 + 10 * j + k; pr[ptot].nelems = 1; ptot++; }
    }
    for (int j = 0; j < NGMAX; j++) if (j < ng) {
        ASSUME(in.g_num[j] >= 1 && in.g_num[j] <= 2 && in.g_id[j] >= 1 && in.g_id[j] % 2 == 1 && in.g_id[j] < 1000);
        memset(&gl[j], 0, sizeof gl[j]);
        gl[j].id = in.g_id[j]; gl[j].nonlead_off = gtot; gl[j].nonlead_num = in.g_num[j]; gl[j].flag = NC_REQ_BUF_TYPE_IS_CONTIG;
        gl[j].varp = &var_fix; gl[j].max_rec = -1; gl[j].abuf_index = -1; gl[j].buftype = MPI_DATATYPE_NULL; gl[j].imaptype = MPI_DATATYPE_NULL;
        gl[j].start = malloc(3 * sizeof(MPI_Offset)); gl[j].nelems = 2;
        for (int k = 0; k < in.g_num[j]; k++) { memset(&gr[gtot], 0, sizeof gr[0]); gr[gtot].lead_off = j; gr[gtot].offset_start = 2000 + 10 * j + k; gr[gtot].nelems = 1; gtot++; }
    }
    nc.put_lead_list = pl; nc.put_list = pr; nc.numLeadPutReqs = np; nc.numPutReqs = ptot;
    nc.get_lead_list = gl; nc.get_list = gr; nc.numLeadGetReqs = ng; nc.numGetReqs = gtot;
    if (nabuf) { abuf.size_allocated = 64; abuf.size_used = 8 * nabuf; abuf.table_size = NPMAX; abuf.tail = nabuf; abuf.occupy_table = occ; nc.abuf = &abuf; }

    /* ---- the request-id array handed to wait / cancel ---- */
    ASSUME(in.num_reqs >= 0 && in.num_reqs <= NIDS);
    int ids[NIDS], st[NIDS];
    int any_unknown = 0;
    for (int i = 0; i < NIDS; i++) {
        ids[i] = in.req_ids[i]; st[i] = 12345;
        if (i < in.num_reqs && ids[i] != NC_REQ_NULL) {
            int known = 0;
            for (int j = 0; j < np && j < NPMAX; j++) if (in.p_id[j] == ids[i]) known = 1;
            for (int j = 0; j < ng && j < NGMAX; j++) if (in.g_id[j] == ids[i]) known = 1;
            if (!known) any_unknown = 1;
            for (int k = 0; k < i; k++) ASSUME(ids[k] != ids[i]);      /* stated bound: an id is named at most once */
        }
    }
    int *stp = in.st_null ? NULL : st;
    int nnamed_p = 0, nnamed_g = 0;
    for (int j = 0; j < np && j < NPMAX; j++) nnamed_p += named_put(j);
    for (int j = 0; j < ng && j < NGMAX; j++) nnamed_g += named_get(j);

#if defined(KF_EXCLUDE_C02_shortcut_count_match) || defined(KF_ONLY_C02_shortcut_count_match)
    {   /* listed finding: "number of ids == number of pending requests" is taken as "these are exactly the pending requests,
         * in queue order" without looking at the ids */
        int sc = 0;
        if (gtot == 0 && np > 0 && in.num_reqs == np) { for (int i = 0; i < np; i++) if (ids[i] != in.p_id[i]) sc = 1; }
        else if (ptot == 0 && ng > 0 && in.num_reqs == ng) { for (int i = 0; i < ng; i++) if (ids[i] != in.g_id[i]) sc = 1; }
        else if (in.num_reqs == np + ng && in.st_null && in.num_reqs > 0) { if (nnamed_p != np || nnamed_g != ng) sc = 1; }
#ifdef KF_EXCLUDE_C02_shortcut_count_match
        ASSUME(!sc);
#else
        ASSUME(sc);
#endif
    }
#endif

#ifdef OP_COMMIT
    int coll_indep = in.coll ? NC_REQ_COLL : NC_REQ_INDEP;
    int err = vh_call_req_commit(&nc, in.num_reqs, ids, stp, coll_indep);
    /* did the agreement step report that ANOTHER rank's wait failed (its do_io[2] contribution)? */
    int peer_error = 0;
    for (int k = 0; k < vt_n && k < VT_MAX; k++) if (vt_ev[k].kind == EV_ALLREDUCE && vt_ev[k].count == 4 && vt_ev[k].vals[2] != 0 && !any_unknown) peer_error = 1;
#ifdef KF_EXCLUDE_C08_waitall_peer_error
    ASSUME(!peer_error);       /* listed finding: a peer's invalid request id makes this rank drop its own valid requests */
#endif
#ifdef KF_ONLY_C08_waitall_peer_error
    ASSUME(peer_error);
#endif
    if (!any_unknown) {
        /* ---- C02.c: what reaches the I/O layer ---- */
        int w = -1, r = -1;
        for (int c = 0; c < wg_calls; c++) { if (wg[c].rw == NC_REQ_WR) w = c; else r = c; }
        int exp_w = 0; long long need = in.numrecs;
        for (int j = 0; j < np && j < NPMAX; j++) if (named_put(j)) {
            exp_w += in.p_num[j];
            if (in.p_rec[j] && !in.p_skip[j] && in.p_maxrec[j] > need) need = in.p_maxrec[j];
        }
#ifdef REPLAY
        fprintf(stderr, "DBG err=%d wg_calls=%d w=%d r=%d exp_w=%d wg0.n=%d wg0.rw=%d newnumrecs=%lld need=%lld nnamed_p=%d numLeadPut=%d numPut=%d\n", err, wg_calls, w, r, exp_w, wg[0].n, wg[0].rw, wg[0].newnumrecs, need, nnamed_p, nc.numLeadPutReqs, nc.numPutReqs);
#endif
        if (exp_w > 0) {
            ASSERT(w >= 0 && wg[w].n == exp_w, "exactly the sub-requests of the named put requests are handed to the write");
#ifdef KF_EXCLUDE_C02_commit_prefix_scan
            /* listed finding: only the first num_w_lead_reqs queue entries are scanned for the new record count */
            int covered = 1;
            for (int j = 0; j < np && j < NPMAX; j++) if (named_put(j) && j >= nnamed_p) covered = 0;
            if (covered)
#endif
            ASSERT(w >= 0 && wg[w].newnumrecs >= need, "the record count handed to the write covers every named record put (C05)");
            if (in.nprocs == 1 || !in.coll) ASSERT(w >= 0 && wg[w].newnumrecs <= need, "the record count is not inflated by requests that were not named");
            /* each named lead's sub-requests appear, and no un-named lead's */
            for (int j = 0; j < np && j < NPMAX; j++) for (int k = 0; k < in.p_num[j]; k++) {
                int tag = 1000 + 10 * j + k, seen = 0;
                for (int x = 0; w >= 0 && x < wg[w].n && x < 8; x++) if (wg[w].tags[x] == tag) seen++;
                ASSERT(seen == (named_put(j) ? 1 : 0), "a sub-request is written exactly once iff its request was named");
            }
        } else if (in.nprocs == 1 || !in.coll) ASSERT(w < 0, "no write is issued when no put request was named");
        /* ---- what stays queued (Q again) ---- */
        if (err == NC_NOERR || wg_calls > 0) {
            int jj = 0, off = 0;
            for (int j = 0; j < np && j < NPMAX; j++) if (!named_put(j)) {
                ASSERT(jj < nc.numLeadPutReqs && nc.put_lead_list[jj].id == in.p_id[j], "un-named put requests stay pending, in order");
                ASSERT(nc.put_lead_list[jj].nonlead_off == off && nc.put_lead_list[jj].nonlead_num == in.p_num[j], "their sub-requests stay attached (offsets re-tiled)");
                for (int k = 0; k < in.p_num[j]; k++) {
                    ASSERT(nc.put_list[off + k].offset_start == 1000 + 10 * j + k, "sub-requests of a pending request are unchanged");
                    ASSERT(nc.put_list[off + k].lead_off == jj, "sub-requests point back to their lead");
                }
                off += in.p_num[j]; jj++;
            }
            ASSERT(nc.numLeadPutReqs == jj && nc.numPutReqs == off, "queue counters match what stays pending");
            if (jj == 0) ASSERT(nc.put_lead_list == NULL && nc.put_list == NULL, "an emptied queue is released");
            /* ---- C13.c: in-place swapped buffers are swapped back exactly for the completed requests ---- */
            for (int j = 0; j < np && j < NPMAX; j++)
                ASSERT(swapcnt[j] == ((named_put(j) && in.p_swap[j]) ? 1 : 0) && !swap_other, "caller buffers: swapped back exactly once for completed in-place-swapped requests, untouched otherwise");
            for (int j = 0, a = 0; j < np && j < NPMAX; j++) if (in.p_abuf[j]) { ASSERT(occ[a].is_used == (named_put(j) ? 0 : 1), "attached-buffer slots are released exactly for completed bput requests"); a++; }
            for (int i = 0; i < in.num_reqs && i < NIDS; i++) ASSERT(ids[i] == NC_REQ_NULL, "every named id is reset to NC_REQ_NULL");
        }
        /* ---- C11: an error of the write batch is not lost ---- */
        if (w >= 0 && in.wg_rc[w] != NC_NOERR) {
#ifdef KF_EXCLUDE_C11_commit_err_overwrite
            if (r < 0)        /* listed finding: the read batch's result overwrites the write batch's */
#endif
            ASSERT(err != NC_NOERR, "an error of the write batch is returned by wait");
        }
        if (r >= 0 && in.wg_rc[r] != NC_NOERR) ASSERT(err != NC_NOERR, "an error of the read batch is returned by wait");
#if NP >= 2 && (DBG_NREQ < NP || NG > 0)
        COVER(exp_w > 0 && nnamed_p < np && err == NC_NOERR, "partial wait: some put requests stay pending");
#endif
#if NG > 0
        COVER(w >= 0 && r >= 0, "one wait completes puts and gets");
#endif
#if NP == 3 && DBG_NREQ < 3
        COVER(np == 3 && named_put(2) && !named_put(0) && in.p_rec[2] && err == NC_NOERR, "only the last-queued record put is named");
#endif
    } else {
        ASSERT(err == NC_EINVAL_REQUEST || (in.coll && in.nprocs > 1 && err != NC_NOERR), "an unknown request id is reported");
#if !(NG == 0 && DBG_NREQ == NP) || !defined(KF_EXCLUDE_C02_shortcut_count_match)
        COVER(1, "unknown id");
#endif
    }
#endif

#ifdef OP_CANCEL
    int err = ncmpio_cancel(&nc, in.num_reqs, ids, stp);
    {
        int jj = 0, off = 0;
        for (int j = 0; j < np && j < NPMAX; j++) if (!named_put(j)) {
            ASSERT(jj < nc.numLeadPutReqs && nc.put_lead_list[jj].id == in.p_id[j], "cancel: un-named put requests stay pending, in order");
            ASSERT(nc.put_lead_list[jj].nonlead_off == off && nc.put_lead_list[jj].nonlead_num == in.p_num[j], "cancel: their sub-requests stay attached (offsets re-tiled)");
            for (int k = 0; k < in.p_num[j]; k++) {
                ASSERT(nc.put_list[off + k].offset_start == 1000 + 10 * j + k, "cancel: sub-requests of a pending request are unchanged");
                ASSERT(nc.put_list[off + k].lead_off == jj, "cancel: sub-requests point back to their lead");
            }
            off += in.p_num[j]; jj++;
        }
        ASSERT(nc.numLeadPutReqs == jj && nc.numPutReqs == off, "cancel: queue counters match what stays pending");
        if (jj == 0) ASSERT(nc.put_lead_list == NULL && nc.put_list == NULL, "cancel: an emptied queue is released");
        int gj = 0;
        for (int j = 0; j < ng && j < NGMAX; j++) if (!named_get(j)) gj++;
        ASSERT(nc.numLeadGetReqs == gj, "cancel: get queue counter");
        for (int j = 0; j < np && j < NPMAX; j++)
            ASSERT(swapcnt[j] == ((named_put(j) && in.p_swap[j]) ? 1 : 0) && !swap_other, "cancel: caller buffers swapped back exactly once for the cancelled in-place-swapped requests, untouched otherwise");
        for (int j = 0, a = 0; j < np && j < NPMAX; j++) if (in.p_abuf[j]) { ASSERT(occ[a].is_used == (named_put(j) ? 0 : 1), "cancel: attached-buffer slots released exactly for cancelled bput requests"); a++; }
        for (int i = 0; i < in.num_reqs && i < NIDS; i++) {
            int known = ids[i] == NC_REQ_NULL || in.req_ids[i] == NC_REQ_NULL;
            if (in.req_ids[i] != NC_REQ_NULL && pos_of(in.req_ids[i]) == i) {
                int k2 = 0; for (int j = 0; j < np && j < NPMAX; j++) if (in.p_id[j] == in.req_ids[i]) k2 = 1;
                for (int j = 0; j < ng && j < NGMAX; j++) if (in.g_id[j] == in.req_ids[i]) k2 = 1;
                if (k2) ASSERT(ids[i] == NC_REQ_NULL, "cancel: a cancelled id is reset to NC_REQ_NULL");
                else if (stp) ASSERT(st[i] == NC_EINVAL_REQUEST, "cancel: an unknown id is reported in its status slot");
            }
            (void)known;
        }
        ASSERT((err == NC_NOERR) == !any_unknown, "cancel returns NC_EINVAL_REQUEST exactly when an unknown id was named");
#if NP == 3
        COVER(np == 3 && named_put(0) && !named_put(1) && !named_put(2) && in.p_num[0] != in.p_num[1], "cancel the first of three puts with different sub-request counts");
#endif
#if NP >= 2
        COVER(np >= 2 && named_put(0) && in.p_swap[0] && in.p_swap[1] && !named_put(1), "cancel a swapped request queued before another swapped one");
#endif
    }
#endif
    WITNESS_END();
    VH_RETURN;
}
