/* C07.c / C03 -- attribute overwrite rules of ncmpio_put_att (ncmpio_attr.m4, real; lookup through the real hash table;
 * name normalisation cut to identity = ASCII names; header writer cut to a recorder).
 * State: a global attribute list with one attribute "a" of ANY numeric type and 0..3 elements, define or data mode.
 * Call: put_att of "a" (overwrite) or "c" (new) with ANY numeric type, 0..3 elements, int values.
 * Obligations: in data mode an attribute may only be overwritten when its encoded size does not grow (else
 * NC_ENOTINDEFINE and NOTHING changes); a new attribute needs define mode; on success the list shows the new
 * type/length, other objects untouched; a data-mode change is written to the file header before the call returns.
 */
#include "vh.h"
#include <mpi.h>
#include <pnetcdf.h>
#include <dispatch.h>
#include <ncmpio_NC.h>
#include <ncmpio_driver.h>
struct inputs { unsigned char o_tsel, o_n, n_tsel, n_n, indef, newname, cdf5; int vals[3]; unsigned char o_bytes[24]; };
static const nc_type TY[10] = { NC_BYTE, NC_SHORT, NC_INT, NC_FLOAT, NC_DOUBLE, NC_UBYTE, NC_USHORT, NC_UINT, NC_INT64, NC_UINT64 };
static int tsz(nc_type t) { return (t == NC_BYTE || t == NC_UBYTE) ? 1 : (t == NC_SHORT || t == NC_USHORT) ? 2 : (t == NC_INT || t == NC_UINT || t == NC_FLOAT) ? 4 : 8; }
static long long enc(nc_type t, int n) { return ((long long)tsz(t) * n + 3) / 4 * 4; }
static int hdr_writes;
int ncmpio_write_header(NC *ncp) { hdr_writes++; return NC_NOERR; }
int ncmpii_utf8_normalize(const char *s, char **out) { size_t n = strlen(s); *out = malloc(n + 1); memcpy(*out, s, n + 1); return NC_NOERR; }
#ifndef REPLAY
void *realloc(void *p, size_t n) { if (p == NULL) return malloc(64); return p; }
#endif
static NC nc; static NC_attr a0; static NC_attr *alist[8]; static NC_nametable T[1]; static int tl[8];

VH_MAIN {
    VH_INPUTS(in);
    ASSUME(in.o_tsel < 10 && in.n_tsel < 10 && in.o_n <= 3 && in.n_n <= 3);
    if (!in.cdf5) { ASSUME(in.o_tsel < 5 && in.n_tsel < 5); }       /* CDF-1/2 have the five classic numeric types */
    nc_type ot = TY[in.o_tsel], nt = TY[in.n_tsel];
    long long oxsz = enc(ot, in.o_n), nxsz = enc(nt, in.n_n);
    a0.xtype = ot; a0.nelems = in.o_n; a0.xsz = oxsz; a0.name = malloc(2); a0.name[0] = 'a'; a0.name[1] = 0; a0.name_len = 1;
    a0.xvalue = oxsz ? malloc(24) : NULL; if (oxsz) memcpy(a0.xvalue, in.o_bytes, 24);
    alist[0] = &a0; tl[0] = 0; T[0].num = 1; T[0].list = tl;
    nc.attrs.ndefined = 1; nc.attrs.value = alist; nc.attrs.hash_size = 1; nc.attrs.nameT = T;
    nc.format = in.cdf5 ? 5 : 2; nc.nprocs = 1; nc.flags = in.indef ? NC_MODE_DEF : 0;
    const char *name = in.newname ? "c" : "a";

    int err = ncmpio_put_att(&nc, NC_GLOBAL, name, nt, in.n_n, in.vals, MPI_INT);

    int grows = nxsz > oxsz;
    if (!in.indef && (in.newname || grows)) {
        ASSERT(err == NC_ENOTINDEFINE, "data mode: adding an attribute or growing one is refused with NC_ENOTINDEFINE");
        ASSERT(nc.attrs.ndefined == 1 && a0.xtype == ot && a0.nelems == in.o_n && a0.xsz == oxsz, "a refused put_att changes nothing");
        ASSERT(hdr_writes == 0, "a refused put_att writes nothing");
        COVER(!in.newname && in.n_n <= in.o_n && grows, "data mode: same or fewer elements of a wider type refused");
    } else {
        ASSERT(err == NC_NOERR || err == NC_ERANGE, "a permitted put_att succeeds (NC_ERANGE only reports value conversion)");
        NC_attr *p = in.newname ? nc.attrs.value[1] : &a0;
        ASSERT(nc.attrs.ndefined == (in.newname ? 2 : 1), "number of attributes follows the model");
        ASSERT(p->xtype == nt && p->nelems == in.n_n && p->xsz == nxsz, "the attribute shows the new type, length and encoded size");
        if (in.newname) ASSERT(a0.xtype == ot && a0.nelems == in.o_n && nc.attrs.value[0] == &a0, "other attributes are untouched");
        ASSERT(hdr_writes == (in.indef ? 0 : 1), "a data-mode change is written to the file header before the call returns, a define-mode one is not");
        if (!in.indef) ASSERT(p->xsz <= oxsz, "data mode never grows the header");
        COVER(!in.indef && !in.newname && nxsz < oxsz, "data mode: shrinking overwrite");
        COVER(in.indef && in.newname, "define mode: new attribute");
    }
    WITNESS_END();
    VH_RETURN;
}
