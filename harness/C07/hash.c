/* C07.a/b -- name lookup tables (src/drivers/ncmpio/ncmpio_hash_func.c): ncmpio_hash_insert / ncmpio_hash_delete /
 * ncmpio_hash_replace / ncmpio_hash_table_copy on ANY table satisfying
 *    H: every id in [0,n) occurs exactly once over all buckets, in bucket HASH(name[id]); no other entry
 * with n <= NID objects, names of <= 2 symbolic bytes, hash_size HS (1 forces every collision), ids in ANY order inside a
 * bucket.  One operation, then H again for the reference model's name array (delete renumbers the ids above the
 * deleted one), i.e. lookup by name agrees with lookup by id.  Histories of any length follow by induction.
 */
#include "vh.h"
#include <mpi.h>
#include <pnetcdf.h>
#include <dispatch.h>
#include <ncmpio_NC.h>
#ifndef NID
#define NID 3
#endif
#ifndef HS
#define HS 2
#endif
struct inputs { unsigned char n; char name[NID + 1][3]; unsigned char order[NID]; unsigned char op, id; char newname[3]; };
#ifndef REPLAY
/* model cut: lists keep their block when re-sized (capacity of every list in this harness is NID+PNC_HLIST_GROWBY) */
void *realloc(void *p, size_t n) { if (p == NULL) return malloc((NID + 1 + PNC_HLIST_GROWBY) * sizeof(int)); return p; }
#endif
static NC_nametable T[HS];
static int count_id(int id, int *bucket) { int c = 0; for (int b = 0; b < HS; b++) for (int k = 0; k < T[b].num && k <= NID; k++) if (T[b].list[k] == id) { c++; *bucket = b; } return c; }

VH_MAIN {
    VH_INPUTS(in);
    int n = in.n; ASSUME(n <= NID);
    char names[NID + 1][3];
    for (int i = 0; i <= NID; i++) { names[i][0] = in.name[i][0]; names[i][1] = in.name[i][1]; names[i][2] = 0; ASSUME(names[i][0] != 0); }
    { ASSUME(in.newname[0] != 0); }
    char newname[3] = { in.newname[0], in.newname[1], 0 };
    /* build a table satisfying H: ids appended to their buckets in an arbitrary order */
    for (int k = 0; k < NID; k++) { ASSUME(in.order[k] < NID); for (int j = 0; j < k; j++) ASSUME(in.order[j] != in.order[k]); }
    for (int k = 0; k < NID; k++) {
        int id = in.order[k];
        if (id < n) {
            int key = ncmpio_Bernstein_hash(names[id], HS);
            ASSERT(key >= 0 && key < HS, "hash key is a valid bucket index");
            if (T[key].list == NULL) T[key].list = malloc((NID + 1 + PNC_HLIST_GROWBY) * sizeof(int));
            T[key].list[T[key].num++] = id;
        }
    }
    char model[NID + 1][3]; int mn = n;
    for (int i = 0; i <= NID; i++) { model[i][0] = names[i][0]; model[i][1] = names[i][1]; model[i][2] = 0; }
    ASSUME(in.op < 3);
#ifdef OP_FIXED
    in.op = OP_FIXED;
#endif
    if (in.op == 0) {                          /* define a new object: id n */
        ncmpio_hash_insert(T, HS, names[n], n); mn = n + 1;
#if !defined(OP_FIXED) || OP_FIXED == 0
        COVER(n == NID, "insert into a full-size table");
#endif
    } else if (in.op == 1) {                   /* delete object id: ids above it move down by one */
        ASSUME(in.id < n);
        int err = ncmpio_hash_delete(T, HS, names[in.id], in.id);
        ASSERT(err == NC_NOERR, "delete of an existing id succeeds");
        for (int i = in.id; i < NID; i++) { model[i][0] = model[i + 1][0]; model[i][1] = model[i + 1][1]; }
        mn = n - 1;
#if !defined(OP_FIXED) || OP_FIXED == 1
        COVER(n == NID && in.id == 1, "delete the middle id");
#endif
    } else {                                   /* rename object id */
        ASSUME(in.id < n);
        int err = ncmpio_hash_replace(T, HS, names[in.id], newname, in.id);
        ASSERT(err == NC_NOERR, "rename of an existing id succeeds");
        model[in.id][0] = newname[0]; model[in.id][1] = newname[1];
#if !defined(OP_FIXED) || OP_FIXED == 2
        COVER(n == NID && in.id == 0, "rename id 0 (it moves to the end of its new bucket)");
#endif
    }
    /* H for the model */
    int total = 0;
    for (int b = 0; b < HS; b++) { ASSERT(T[b].num >= 0 && T[b].num <= NID + 1, "bucket sizes stay in range"); total += T[b].num; }
    ASSERT(total == mn, "the table holds exactly one entry per object");
    for (int i = 0; i <= NID; i++) if (i < mn) {
        int b = -1, c = count_id(i, &b);
        ASSERT(c == 1, "every id occurs exactly once (lookup by name finds what lookup by id names)");
        ASSERT(b == ncmpio_Bernstein_hash(model[i], HS), "an id sits in the bucket of its current name");
    }
    WITNESS_END();
    VH_RETURN;
}
