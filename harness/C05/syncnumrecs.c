/* C05.d -- the synchronisation points after independent writes: ncmpio_sync_numrecs (ncmpio_sync.c) with
 * ncmpio_write_numrecs real.  From ANY rank-local state (numrecs, dirty bit, mode, format, rank, nprocs):
 *   in independent data mode the call agrees on the record count with one Allreduce(MAX) (own contribution = the local
 *   count), every rank ends with the agreed value, the dirty bit is cleared, the root stores the value in the header
 *   when it grew or was dirty; in collective data mode nothing happens; define mode / read-only are refused.
 */
#include "vh.h"
#include "mpi_model.h"
#include <pnetcdf.h>
#include <dispatch.h>
#include <ncmpio_NC.h>
#include <ncmpio_driver.h>
struct inputs { long long numrecs; int rank, nprocs; unsigned char indep, def, rdonly, dirty, hcoll, safe, nrecvars; struct vh_env env; };
static char fh_i, fh_c; static NC nc;
VH_MAIN {
    VH_INPUTS(in);
    ASSUME(in.nprocs >= 1 && in.nprocs <= 4 && in.rank >= 0 && in.rank < in.nprocs && in.numrecs >= 0 && in.numrecs < (1LL << 31) && in.nrecvars <= 2);
    ASSUME(!(in.def && in.indep));
    vh_env_reset(&in.env); vt_reset(in.rank, in.nprocs);
    nc.rank = in.rank; nc.nprocs = in.nprocs; nc.format = 5; nc.numrecs = in.numrecs; nc.vars.num_rec_vars = in.nrecvars; nc.comm = MPI_COMM_WORLD;
    nc.safe_mode = in.safe ? 1 : 0;
    nc.flags = (in.indep ? NC_MODE_INDEP : 0) | (in.def ? NC_MODE_DEF : 0) | (in.rdonly ? NC_MODE_RDONLY : 0) | (in.dirty ? NC_NDIRTY : 0) | (in.hcoll ? NC_HCOLL : 0);
    nc.independent_fh = (MPI_File)&fh_i; nc.collective_fh = (MPI_File)&fh_c;
    int err = ncmpio_sync_numrecs(&nc);
    if (in.def) { ASSERT(err == NC_EINDEFINE && vt_n == 0 && nc.numrecs == in.numrecs, "refused in define mode, nothing happens"); }
    else if (in.nrecvars == 0) { ASSERT(err == NC_NOERR && vt_n == 0, "no record variable: nothing to synchronise"); }
    else if (in.rdonly) { ASSERT(err == NC_EPERM && vt_n == 0, "read-only file: refused"); }
    else if (!in.indep) { ASSERT(err == NC_NOERR && vt_n == 0 && nc.numrecs == in.numrecs, "collective data mode: the record count is already synchronised"); }
    else {
        long long agreed = in.numrecs; int nall = 0;
        for (int k = 0; k < vt_n && k < VT_MAX; k++) if (vt_ev[k].kind == EV_ALLREDUCE) { nall++; agreed = vt_ev[k].val; ASSERT(vt_ev[k].own == in.numrecs && vt_ev[k].op == 1, "the local record count is contributed to an Allreduce(MAX)"); }
        ASSERT(nall == (in.nprocs > 1 ? 1 : 0), "exactly one agreement step");
        if (in.safe && in.nprocs > 1 && in.rank > 0) ASSERT(err == NC_NOERR || err == NC_EWRITE, "safe mode: a non-root rank reports the root's write failure or success");
        else ASSERT(err == NC_NOERR, "synchronisation succeeds when the I/O succeeds");
        ASSERT(nc.numrecs == agreed && nc.numrecs >= in.numrecs, "every rank ends with the agreed record count, which is not smaller than its own");
        ASSERT(!(nc.flags & NC_NDIRTY), "the pending-update mark is cleared");
        if (in.rank == 0) ASSERT(vt_count_kind(EV_WRITE_AT) + vt_count_kind(EV_WRITE_AT_ALL) == 1, "the root stores the record count in the file header");
        else if (!in.hcoll) ASSERT(vt_count_kind(EV_WRITE_AT) + vt_count_kind(EV_WRITE_AT_ALL) == 0, "other ranks do not write the header");
        COVER(in.nprocs > 1 && agreed > in.numrecs, "another rank has written more records");
        COVER(in.rank == 0, "root");
    }
    WITNESS_END();
    VH_RETURN;
}
