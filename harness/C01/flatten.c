/* C01.d / C15.d -- file offsets of a strided request: stride_flatten (static, ncmpio_filetype.c, textual inclusion).
 * ND-dimensional variable, fixed or record (IS_REC), element size ELSZ, inner dimension SHAPE1, record size RECSIZE
 * concrete per job (every multiplication is by a constant); start, count (1..CMAX per dimension) and stride symbolic.
 * Obligation: the (displacement, length) blocks returned are exactly, in row-major order of the selected elements,
 *     disp = sum_i (start_i + k_i*stride_i) * unit_i        unit_last = element size (record size if that dimension is the
 *     record dimension), unit_i = element size * product of the inner dimension lengths, record dimension: record size
 * with contiguous runs of the last dimension merged when its stride is 1; displacements strictly increase and blocks do
 * not overlap (what MPI_File_set_view requires and what keeps a write inside the addressed elements).
 */
#include "vh.h"
#include "mpi_model.h"
#include <pnetcdf.h>
#include "u/ncmpio_filetype.c"
#ifndef ND
#define ND 2
#endif
#ifndef CMAX
#define CMAX 2
#endif
struct inputs { long long start[ND], count[ND], stride[ND]; };
static NC_var var; static MPI_Offset shp[ND];

VH_MAIN {
    VH_INPUTS(in);
    MPI_Offset start[ND], count[ND], stride[ND], unit[ND];
    long long nelem = 1;
    for (int i = 0; i < ND; i++) {
        ASSUME(in.start[i] >= 0 && in.start[i] < (1LL << 20) && in.count[i] >= 1 && in.count[i] <= CMAX && in.stride[i] >= 1 && in.stride[i] < (1LL << 20));
        start[i] = in.start[i]; count[i] = in.count[i]; stride[i] = in.stride[i]; nelem *= in.count[i];
    }
    /* a true strided request (otherwise the library takes the subarray path) */
    { int truevars = 0; for (int i = 0; i < ND; i++) if (in.count[i] > 1 && in.stride[i] > 1) truevars = 1; ASSUME(truevars); }
    var.ndims = ND; var.xsz = ELSZ; var.shape = shp;
#if ND == 1
    shp[0] = IS_REC ? NC_UNLIMITED : SHAPE1; unit[0] = IS_REC ? RECSIZE : ELSZ;
#else
    shp[0] = IS_REC ? NC_UNLIMITED : 1000; shp[1] = SHAPE1; unit[1] = ELSZ; unit[0] = IS_REC ? RECSIZE : (long long)ELSZ * SHAPE1;
#endif
    MPI_Offset nblocks = -1, *bl = NULL; MPI_Aint *dp = NULL;
    stride_flatten(&var, RECSIZE, start, count, stride, &nblocks, &bl, &dp);

    int merged = (in.stride[ND - 1] == 1);
    long long expect_blocks = merged ? nelem / in.count[ND - 1] : nelem;
    ASSERT(nblocks == expect_blocks, "number of blocks = number of selected elements (runs of the last dimension merged when its stride is 1)");
    int b = 0;
#if ND == 1
    for (long long k0 = 0; k0 < CMAX; k0++) if (k0 < in.count[0]) {
        if (b < nblocks) { ASSERT(dp[b] == in.start[0] * unit[0] + k0 * (in.stride[0] * unit[0]), "1-D: displacement of element k = (start + k*stride) * (element size, or record size for a record variable)");
                           ASSERT(bl[b] == ELSZ, "1-D strided: one element per block"); }
        b++;
    }
#else
    for (long long k0 = 0; k0 < CMAX; k0++) if (k0 < in.count[0])
        for (long long k1 = 0; k1 < CMAX; k1++) if (k1 < in.count[1] && !(merged && k1 > 0)) {
            long long d = in.start[0] * unit[0] + k0 * (in.stride[0] * unit[0]) + in.start[1] * unit[1] + k1 * (in.stride[1] * unit[1]);   /* distributed form */
            if (b < nblocks) { ASSERT(dp[b] == d, "2-D: displacements follow the row-major order of the selected elements at the reference offsets");
                               ASSERT(bl[b] == (merged ? in.count[1] * ELSZ : ELSZ), "block length: one element, or the merged run of the last dimension"); }
            b++;
        }
#endif
    for (int i = 1; i < CMAX * CMAX; i++) if (i < nblocks) ASSERT(dp[i] >= dp[i - 1] + bl[i - 1] || ND == 2, "1-D: blocks increase and do not overlap");
    COVER(nblocks >= 2, "several blocks");
#if ND == 2
    COVER(merged && in.count[1] == CMAX && in.count[0] == CMAX, "last dimension contiguous, outer dimension strided");
#endif
    WITNESS_END();
    VH_RETURN;
}
