/* C01.h / C13 -- decoding of the caller's buffer datatype: ncmpii_dtype_decode (dtype_decode.c) on derived types built
 * through the captured constructors (MPI_Type_contiguous / create_resized / dup / vector), introspected through the
 * MPI_Type_get_envelope / get_contents model.  Obligations:
 *   element type, element size and number of elements per instance are those of the type map;
 *   SOUNDNESS of the contiguity flag: it is reported contiguous only if consecutive instances really are gap-free
 *   (extent == size, lower bound 0) - the flexible put/get paths skip MPI_Pack/Unpack and byte-swap or convert the
 *   first nelems*size bytes of the user buffer in place when the flag is set.
 */
#include "vh.h"
#include "mpi_model.h"
#include <pnetcdf.h>
#include <common.h>
struct inputs { int n, blocklen, stride; long long lb, extent; unsigned char psel; };
VH_MAIN {
    VH_INPUTS(in);
    in.psel = PSEL;              /* element type concrete per job (keeps the handles, and hence the recursion, concrete) */
    vt_reset(0, 1);
    ASSUME(in.psel < 3 && in.n >= 1 && in.n <= 4 && in.blocklen >= 1 && in.blocklen <= 3 && in.stride >= 1 && in.stride <= 8);
    MPI_Datatype prim = in.psel == 0 ? MPI_INT : in.psel == 1 ? MPI_DOUBLE : MPI_SHORT;
    int psz = in.psel == 0 ? 4 : in.psel == 1 ? 8 : 2;
    ASSUME(in.lb >= 0 && in.lb <= 16 && in.extent >= psz && in.extent <= 64);
    MPI_Datatype t = MPI_DATATYPE_NULL, t1 = MPI_DATATYPE_NULL;
    long long nel = 1; int gapfree = 1;
#if PAT == 0
    MPI_Type_contiguous(in.n, prim, &t); nel = in.n;
#elif PAT == 1
    MPI_Type_create_resized(prim, in.lb, in.extent, &t); gapfree = (in.lb == 0 && in.extent == psz);
#elif PAT == 2
    MPI_Type_create_resized(prim, 0, in.extent, &t1); MPI_Type_dup(t1, &t); gapfree = (in.extent == psz);
#elif PAT == 3
    MPI_Type_create_resized(prim, 0, in.extent, &t1); MPI_Type_contiguous(in.n, t1, &t); nel = in.n; gapfree = (in.extent == psz);
#else
    MPI_Type_vector(in.n, in.blocklen, in.stride, prim, &t); nel = (long long)in.n * in.blocklen; gapfree = (in.n == 1 || in.blocklen == in.stride);
#endif
    MPI_Datatype ptype = MPI_DATATYPE_NULL; int esz = -1, isderived = -1, iscontig = -1; MPI_Offset nelems = 0;
    int err = ncmpii_dtype_decode(t, &ptype, &esz, &nelems, &isderived, &iscontig);
    ASSERT(err == NC_NOERR, "supported constructors decode");
    ASSERT(ptype == prim && esz == psz, "element type and size of the type map");
    ASSERT(nelems == nel, "number of elements in one instance of the type");
    ASSERT(isderived == 1, "a constructed type is reported as derived");
    if (iscontig) ASSERT(gapfree, "a type is reported contiguous only if consecutive instances are gap-free");
    COVER(!gapfree && !iscontig, "gapped type detected");
    COVER(PAT == 0 && iscontig, "contiguous type recognised");
    WITNESS_END();
    VH_RETURN;
}
