/* C20 (offset tool) -- ncoffsets' own layout computation ncmpii_NC_computeshapes / ncmpii_NC_var_shape64
 * (src/utils/ncoffsets/ncoffsets.c: a stand-alone program with its own header structures, included textually with its
 * main() renamed).  The record offsets the tool prints are begin + r*recsize, so its record size must follow the rule
 * the library writes files with (C03.c): sum of the padded per-record sizes of all record variables, EXCEPT when there
 * is exactly one record variable, whose records are packed without padding.
 * NV variables (kinds concrete per job), 1-D/2-D, type and inner dimension length symbolic, begins as the library lays
 * them out.  Obligations: recsize / begin_rec / begin_var as the format rule predicts; per-variable len = padded size.
 */
#include "vh.h"
#define main ncoffsets_main
#include "u/ncoffsets.c"
#undef main
#ifndef NV
#define NV 2
#endif
struct inputs { long long dimlen[NV], begin0, gap; unsigned char tsel[NV]; };
static NC nc; static NC_dim dims_[NV + 1], *dl[NV + 1]; static NC_var v[NV], *vl[NV]; static long long shp[NV][2], ds[NV][2]; static int did[NV][2];
static const int TYS[6] = { NC_BYTE, NC_CHAR, NC_SHORT, NC_INT, NC_FLOAT, NC_DOUBLE };
static int tsz(int t) { return (t == NC_BYTE || t == NC_CHAR) ? 1 : t == NC_SHORT ? 2 : t == NC_DOUBLE ? 8 : 4; }

VH_MAIN {
    VH_INPUTS(in);
    ASSUME(in.begin0 >= 32 && in.begin0 < (1LL << 30) && (in.begin0 & 3) == 0 && in.gap >= 0 && in.gap < 4096 && (in.gap & 3) == 0);
    /* dimension 0 is the unlimited one; dimension i+1 is the inner dimension of variable i */
    dims_[0].size = NC_UNLIMITED; dl[0] = &dims_[0];
    long long padded[NV], unpadded[NV], e = in.begin0, sumrec = 0; int nrec = 0, lastrec = -1, nfix = 0;
    for (int i = 0; i < NV; i++) {
        ASSUME(in.dimlen[i] >= 1 && in.dimlen[i] < (1LL << 20) && in.tsel[i] < 6);
        dims_[i + 1].size = in.dimlen[i]; dl[i + 1] = &dims_[i + 1];
        int rec = (KINDS >> i) & 1;
        v[i].type = TYS[in.tsel[i]]; v[i].shape = shp[i]; v[i].dsizes = ds[i]; v[i].dimids = did[i]; vl[i] = &v[i];
        if (rec) { v[i].ndims = 2; did[i][0] = 0; did[i][1] = i + 1; nrec++; lastrec = i; }
        else { v[i].ndims = 1; did[i][0] = i + 1; nfix++; }
        unpadded[i] = in.dimlen[i] * tsz(v[i].type); padded[i] = (unpadded[i] + 3) / 4 * 4;
        if (!rec) { v[i].begin = e; e += padded[i]; }
    }
    long long begin_rec = e + in.gap, r = begin_rec;
    for (int i = 0; i < NV; i++) if ((KINDS >> i) & 1) { v[i].begin = r; r += padded[i]; sumrec += padded[i]; }
    nc.dims.ndefined = NV + 1; nc.dims.value = dl; nc.dims.unlimited_id = 0; nc.vars.ndefined = NV; nc.vars.value = vl; nc.xsz = in.begin0; nc.flags = 5;

    int err = ncmpii_NC_computeshapes(&nc);

    ASSERT(err == NC_NOERR, "a layout written by the library is accepted by the tool");
    for (int i = 0; i < NV; i++) ASSERT(v[i].len == padded[i], "per-variable (record) size = element size * inner length, padded to 4 bytes");
    if (nrec == 1) ASSERT(nc.recsize == unpadded[lastrec], "exactly one record variable: records are packed, record size = unpadded size");
    else ASSERT(nc.recsize == sumrec, "record size = sum of the padded sizes of all record variables");
    if (nrec > 0) ASSERT(nc.begin_rec == begin_rec, "record section starts at the first record variable");
    if (nfix > 0) ASSERT(nc.begin_var == in.begin0, "data section starts at the first fixed-size variable");
    COVER(nrec != 1 || (unpadded[lastrec >= 0 ? lastrec : 0] & 3) != 0, "layout accepted (single record variable: size not a multiple of 4)");
    WITNESS_END();
    VH_RETURN;
}
