/* C06.b/c -- redefinition preserves existing data, at the level of the layout decisions:
 * real ncmpio__enddef -> ncmpio_NC_check_vlens, NC_begins, the move decision block, move_record_vars, move_fixed_vars
 * (ncmpio_enddef.c, textual inclusion) with move_file_block and write_NC cut to recorders (the byte movement itself is C06.a).
 * From ANY old layout (a prefix of the schema, laid out by an earlier enddef) and ANY redefinition delta within the bound
 * (header growth, free-space requests, appended fixed/record variables), numrecs <= 2:
 *   every old fixed-size variable whose offset changes is moved exactly once, old extent -> new offset;
 *   every existing record is moved exactly once to begin_rec' + r*recsize' with its old length when the record section
 *   moves or the record size changes; moves are issued tail-first: no move's destination overlaps the source of a
 *   move issued later; nothing is moved when nothing changed.
 */
#include "vh.h"
#include "mpi_model.h"
#include <pnetcdf.h>
#include <dispatch.h>
#include <ncmpio_NC.h>
static int move_file_block(NC *ncp, MPI_Offset to, MPI_Offset from, MPI_Offset nbytes);
static int write_NC(NC *ncp);
#include "u/ncmpio_enddef.c"
#define NMV 8
static struct { long long to, from, n; } mv[NMV]; static int nmv, wrote_hdr;
static int move_file_block(NC *ncp, MPI_Offset to, MPI_Offset from, MPI_Offset nbytes) { ASSUME(nmv < NMV); mv[nmv].to = to; mv[nmv].from = from; mv[nmv].n = nbytes; nmv++; return NC_NOERR; }
static int write_NC(NC *ncp) { wrote_hdr++; return NC_NOERR; }
int ncmpio_fill_vars(NC *ncp) { return NC_NOERR; }
void ncmpio_free_NC(NC *ncp) { }
int MPI_Info_set(MPI_Info info, const char *k, const char *v) { return MPI_SUCCESS; }
#ifndef REPLAY
int sprintf(char *s, const char *f, ...) { s[0] = 0; return 0; }   /* hint strings are not the subject */
#endif
#ifndef NV
#define NV 3
#endif
#ifndef H_ALIGN
#define H_ALIGN 512
#endif
#ifndef R_ALIGN
#define R_ALIGN 4
#endif
struct inputs {
    unsigned char nv, fmt, is_rec[NV], xsel[NV];
    long long nelem[NV], xsz_hdr, h_minfree, v_minfree;
    unsigned char redef, no;                       /* redefinition: the first `no` variables existed before */
    long long o_begin_var, o_begin_rec, o_gap[NV]; /* old layout: gaps in front of each old fixed variable */
    long long numrecs;
    struct vh_env env;
};
static struct inputs in;
MPI_Offset ncmpio_hdr_len_NC(const NC *ncp) { return in.xsz_hdr; }       /* header size: symbolic (encoder checked in C03.a) */
int ncmpio_hdr_put_NC(NC *ncp, void *buf) { return NC_NOERR; }
static NC nc, old; static NC_var v[NV], ov[NV], *vl[NV], *ovl[NV]; static MPI_Offset shp[NV][2], ds[NV][2];

VH_MAIN {
    VH_INPUTS(in0); in = in0;
    /* concrete per job: number of variables, which are record variables (bit mask KINDS), create / redefinition with
     * the first REDEF_NO variables pre-existing */
    in.nv = NV;
    for (int i = 0; i < NV; i++) in.is_rec[i] = (KINDS >> i) & 1;
#if REDEF_NO >= 0
    in.redef = 1; in.no = REDEF_NO;
#else
    in.redef = 0; in.no = 0;
#endif
    int nv = in.nv; ASSUME(nv >= 0 && nv <= NV && (in.fmt == 1 || in.fmt == 2 || in.fmt == 5));
    ASSUME(in.xsz_hdr >= 32 && in.xsz_hdr < (1LL << 33) && in.h_minfree >= 0 && in.h_minfree < (1LL << 33) && in.v_minfree >= 0 && in.v_minfree < (1LL << 33));
    vh_env_reset(&in.env); vt_reset(0, 1);
    int nfix = 0, nrec = 0;
    long long len[NV];
    for (int i = 0; i < NV; i++) {
        ASSUME(in.xsel[i] < 4 && in.nelem[i] >= 1 && in.nelem[i] < (1LL << 33));   /* every variable has at least one element per record */
        int xsz = 1 << in.xsel[i];
        len[i] = ((in.nelem[i] * xsz + 3) / 4) * 4;
        v[i].xsz = xsz; v[i].shape = shp[i]; v[i].dsizes = ds[i]; v[i].len = len[i]; v[i].ndims = in.is_rec[i] ? 2 : 1; vl[i] = &v[i];
        if (in.is_rec[i]) { shp[i][0] = NC_UNLIMITED; shp[i][1] = in.nelem[i]; ds[i][0] = in.nelem[i]; ds[i][1] = in.nelem[i]; }
        else { ASSUME(in.nelem[i] != 0); shp[i][0] = in.nelem[i]; ds[i][0] = in.nelem[i]; }
        if (i < nv) { if (in.is_rec[i]) nrec++; else nfix++; }
    }
    nc.format = in.fmt; nc.vars.ndefined = nv; nc.vars.value = vl; nc.nprocs = 1; nc.safe_mode = 0;
    nc.h_align = H_ALIGN; nc.r_align = R_ALIGN; nc.v_align = 4; nc.h_minfree = in.h_minfree; nc.v_minfree = in.v_minfree;
    nc.flags = NC_MODE_DEF | (in.redef ? 0 : NC_MODE_CREATE);
    /* ---- old layout (redefinition) ---- */
    int no = 0; long long o_end_fix = 0, o_recsize = 0;
    if (in.redef) {
        no = in.no; ASSUME(no <= nv);
        ASSUME(in.o_begin_var >= 32 && in.o_begin_var < (1LL << 34) && (in.o_begin_var & 3) == 0);
        long long e = in.o_begin_var; int first = 1;
        for (int i = 0; i < NV; i++) { ov[i] = v[i]; ovl[i] = &ov[i]; }
        for (int i = 0; i < NV; i++) if (i < no && !in.is_rec[i]) {
            ASSUME(in.o_gap[i] >= 0 && in.o_gap[i] < (1LL << 20) && (in.o_gap[i] & 3) == 0);
            ov[i].begin = first ? e : e + in.o_gap[i]; first = 0; e = ov[i].begin + len[i];
        }
        o_end_fix = e;
        ASSUME(in.o_begin_rec >= o_end_fix && in.o_begin_rec < (1LL << 35) && (in.o_begin_rec & 3) == 0);
        long long r = in.o_begin_rec;
        for (int i = 0; i < NV; i++) if (i < no && in.is_rec[i]) { ov[i].begin = r; r += len[i]; o_recsize += len[i]; }
        old.vars.ndefined = no; old.vars.value = ovl; old.begin_var = in.o_begin_var; old.begin_rec = in.o_begin_rec; old.recsize = o_recsize;
        int ofix = 0; for (int i = 0; i < NV; i++) if (i < no && !in.is_rec[i]) ofix++;
        if (ofix == 0) ASSUME(in.o_begin_var == in.o_begin_rec);
        nc.old = &old; nc.begin_rec = in.o_begin_rec; nc.begin_var = in.o_begin_var;
    }

    ASSUME(in.numrecs >= 0 && in.numrecs <= 2);
    nc.numrecs = in.numrecs; nc.env_h_align = H_ALIGN; nc.env_r_align = R_ALIGN; nc.env_v_align = 4; nc.mpiinfo = MPI_INFO_NULL;
    old.numrecs = in.numrecs;
    /* old single-record-variable packing: the old record size is the unpadded size */
    { int onrec = 0, last = -1; for (int i = 0; i < NV; i++) if (i < no && in.is_rec[i]) { onrec++; last = i; }
      if (onrec == 1) { o_recsize = in.nelem[last] * (1 << in.xsel[last]); old.recsize = o_recsize; } }
    if (in.fmt == 1) ASSUME(in.o_begin_rec < (1LL << 31) && in.o_begin_var < (1LL << 31));

    int err = ncmpio__enddef(&nc, in.h_minfree, 0, in.v_minfree, 0);

    if (err == NC_NOERR) {
        ASSERT(wrote_hdr == 1, "the new header is written");
        /* fixed-size variables */
        for (int i = 0; i < NV; i++) if (i < no && !in.is_rec[i]) {
            int hits = 0;
            for (int k = 0; k < nmv && k < NMV; k++) if (mv[k].from == ov[i].begin && mv[k].n == len[i] && mv[k].to == v[i].begin) hits++;
            if (v[i].begin != ov[i].begin) ASSERT(hits == 1, "a fixed-size variable whose offset changes is moved exactly once from its old extent to its new offset");
        }
        /* records */
        int onrec = 0; for (int i = 0; i < NV; i++) if (i < no && in.is_rec[i]) onrec++;
        if (onrec > 0 && in.numrecs > 0 && (nc.begin_rec != in.o_begin_rec || nc.recsize != o_recsize)) {
            for (long long r = 0; r < 2; r++) if (r < in.numrecs) {
                long long src = in.o_begin_rec + r * o_recsize, dst = nc.begin_rec + r * nc.recsize; int covered = 0;
                for (int k = 0; k < nmv && k < NMV; k++) {
                    /* either one move per record, or one block move of all records when the record size is unchanged */
                    if (mv[k].from == src && mv[k].to == dst && mv[k].n == o_recsize) covered++;
                    else if (nc.recsize == o_recsize && mv[k].from == in.o_begin_rec && mv[k].to == nc.begin_rec && mv[k].n == o_recsize * in.numrecs) covered++;
                }
                if (dst != src) ASSERT(covered == 1, "every existing record is moved exactly once to its place in the new layout");
            }
        }
        /* tail-first: a move's destination must not overlap the source of a move issued later */
        for (int a = 0; a < NMV; a++) for (int b = a + 1; b < NMV; b++) if (b < nmv && mv[a].n > 0 && mv[b].n > 0)
            ASSERT(mv[a].to + mv[a].n <= mv[b].from || mv[b].from + mv[b].n <= mv[a].to, "no move overwrites data that is still to be moved");
        for (int k = 0; k < NMV; k++) if (k < nmv) ASSERT(mv[k].to >= mv[k].from, "data only moves towards larger offsets");
        if (nc.begin_var == in.o_begin_var && nc.begin_rec == in.o_begin_rec && nc.recsize == o_recsize) ASSERT(nmv == 0, "nothing is moved when the layout did not change");
        COVER(nmv >= 1, "data is moved");
#if COV_RECGROW
        COVER(onrec > 0 && in.numrecs == 2 && nc.recsize > o_recsize, "record size grows with two existing records");
#endif
        COVER(nc.begin_var > in.o_begin_var && no > 0, "header extent grows");
    } else COVER(1, "enddef refused");
    WITNESS_END();
    VH_RETURN;
}
