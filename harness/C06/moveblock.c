/* C06.a -- byte-level data movement of a redefinition: move_file_block (static, ncmpio_enddef.c), NPROCS concrete per
 * job, executed for two ADJACENT ranks r, r+1 of the same call (self-composition).  The MPI-IO stubs record, per round,
 * the (read offset,length) and (write offset,length) of each rank.  Obligations (sufficient for "bytes preserved"
 * given the barrier effect of the Allreduce between read and write):
 *   both ranks run the same number of rounds with the same collective calls; in every round rank r's chunk ends where
 *   rank r+1's begins; write offset = read offset + (to - from), write length = read length; rounds proceed from the
 *   tail towards the head (a round's destination never overlaps a LATER round's source); rank 0 of the last round
 *   starts at `from`, the last non-empty chunk of the first round ends at `from + nbytes`.
 */
#include "vh.h"
#include "mpi_model.h"
#include <pnetcdf.h>
#include "u/ncmpio_enddef.c"
#ifndef NPROCS
#define NPROCS 2
#endif
struct inputs { long long to, from, nbytes; int rank; struct vh_env env[2]; };
static char fh_c; static NC nc;
MPI_Offset ncmpio_hdr_len_NC(const NC *ncp) { return 0; }
int ncmpio_hdr_put_NC(NC *ncp, void *buf) { return NC_NOERR; }
int ncmpio_fill_vars(NC *ncp) { return NC_NOERR; }
void ncmpio_free_NC(NC *ncp) { }
struct rec { int n; struct vt_event ev[VT_MAX]; int err; };
static void run(struct rec *R, int rank, struct vh_env *e, struct inputs *in) {
    vh_env_reset(e); vt_reset(rank, NPROCS);
    nc.rank = rank; nc.nprocs = NPROCS; nc.comm = MPI_COMM_WORLD; nc.collective_fh = (MPI_File)&fh_c;
    R->err = move_file_block(&nc, in->to, in->from, in->nbytes);
    R->n = vt_n; memcpy(R->ev, vt_ev, sizeof vt_ev);
}
VH_MAIN {
    VH_INPUTS(in);
    ASSUME(in.rank >= 0 && in.rank < NPROCS && (NPROCS == 1 || in.rank < NPROCS - 1));
    ASSUME(in.from >= 0 && in.from < (1LL << 40) && in.to >= in.from && in.to < (1LL << 41));
    ASSUME(in.nbytes >= 0 && in.nbytes <= (long long)NPROCS * 67108864LL + 5000);          /* up to two rounds */
    /* the other ranks' reads and writes succeed: their contribution to the status Allreduce(MIN) is NC_NOERR */
    for (int k = 0; k < VH_ENV_N; k++) ASSUME(in.env[0].val[k] >= 0 && in.env[0].val[k] < 1000 && in.env[1].val[k] >= 0 && in.env[1].val[k] < 1000);
    struct rec A, B;
    run(&A, in.rank, &in.env[0], &in);
    ASSERT(A.err == NC_NOERR, "the move succeeds when the I/O succeeds");
    long long roff[2], rlen[2], woff[2], wlen[2]; int nr = 0, nw = 0;
    for (int k = 0; k < A.n && k < VT_MAX; k++) {
        if (A.ev[k].kind == EV_READ_AT_ALL && nr < 2) { roff[nr] = A.ev[k].off; rlen[nr] = A.ev[k].count; nr++; }
        if ((A.ev[k].kind == EV_WRITE_AT_ALL || A.ev[k].kind == EV_WRITE_AT) && nw < 2) { woff[nw] = A.ev[k].off; wlen[nw] = A.ev[k].count; nw++; }
    }
    ASSERT(nr == nw, "every round reads once and writes once");
    for (int q = 0; q < 2; q++) if (q < nr) {
        ASSERT(woff[q] == roff[q] + (in.to - in.from), "a chunk is written at its read offset shifted by (to - from)");
        ASSERT(wlen[q] == rlen[q], "a chunk is written with the length that was read");
        ASSERT(rlen[q] == 0 || (roff[q] >= in.from && roff[q] + rlen[q] <= in.from + in.nbytes), "non-empty chunks lie inside the block to move");  /* an idle rank's zero-length call may name an offset past the block: it carries no byte */
    }
    if (nr == 2) ASSERT(roff[1] + rlen[1] <= roff[0] && woff[0] >= roff[1] + rlen[1] || rlen[0] == 0 || rlen[1] == 0, "rounds proceed from the tail: an earlier round's destination does not overlap a later round's source");
#if NPROCS > 1
    run(&B, in.rank + 1, &in.env[1], &in);
    { int ia = 0, ib = 0, mism = 0;
      for (;;) { while (ia < A.n && !A.ev[ia].collective) ia++; while (ib < B.n && !B.ev[ib].collective) ib++;
                 if (ia >= A.n || ib >= B.n) break; if (A.ev[ia].kind != B.ev[ib].kind) mism = 1; ia++; ib++; }
      ASSERT(!mism && ia >= A.n && ib >= B.n, "both ranks run the same rounds with the same collective calls"); }
    { int q = 0; for (int k = 0; k < B.n && k < VT_MAX; k++) if (B.ev[k].kind == EV_READ_AT_ALL && q < 2) {
          if (q < nr) ASSERT(roff[q] + rlen[q] == B.ev[k].off || B.ev[k].count == 0, "in every round rank r's chunk ends where rank r+1's begins (no gap, no overlap)");
          q++; } }
#endif
    if (in.rank == 0 && nr >= 1) ASSERT(roff[nr - 1] == in.from || rlen[nr - 1] == 0, "rank 0 of the last round starts at the beginning of the block");
    COVER(nr == 2, "two rounds");
    COVER(nr == 1 && rlen[0] > 0 && in.to > in.from, "one round, data moved");
    WITNESS_END();
    VH_RETURN;
}
