/* putvar.c -- the whole blocking write path  ncmpio_put_var -> put_varm / ncmpio_getput_zero_req ->
 * ncmpii_buftype_decode, ncmpii_create_imaptype, ncmpio_pack_xbuf, ncmpio_filetype_create_vars, ncmpio_file_set_view,
 * ncmpio_read_write, ncmpio_write_numrecs  executed on the REAL units with the MPI model (stubs/mpi_model.c).
 *
 * State: one NC with one ND-dimensional NC_INT variable (fixed or record), symbolic shape/begin/numrecs, symbolic
 * request (start,count<=2 per dim,stride), int user buffer (byte swap needed, no conversion), rank/nprocs symbolic.
 * The same shared state is run twice where a 2-safety obligation needs it (self-composition):
 *   run A: the valid request;  run B: what another rank does in the same collective call.
 *
 * Obligation groups selected with -D:
 *   CHECK_C08  collective call sequence of A equals that of B (B = NC_REQ_ZERO, as the dispatcher passes for a
 *              zero-length request or an argument invalid on that rank only)
 *   CHECK_C05  record count after the put: collective = max(old, reduced), >= own need; independent: >= need, dirty bit
 *   CHECK_C15  run B (zero-length / rejected) transfers 0 bytes in every MPI-IO call
 *   CHECK_C11  injected MPI-IO failure in run A (any class, any call) => error returned
 *   CHECK_C13  user buffer identical before/after for every in-place-swap setting and every exit path
 */
#include "vh.h"
#include "mpi_model.h"
#include <pnetcdf.h>
#include <dispatch.h>
#include <ncmpio_NC.h>
#include <ncmpio_driver.h>

#ifndef ND
#define ND 1
#endif
/* M_x: 0/1 = fixed by the job, 2 = symbolic */
#ifdef P_REC
#define M_REC P_REC
#else
#define M_REC 2
#endif
#ifdef P_COLL
#define M_COLL P_COLL
#else
#define M_COLL 2
#endif
#ifdef P_STRIDE
#define M_STRIDE P_STRIDE
#else
#define M_STRIDE 2
#endif
#ifdef P_NPROCS1
#define M_MULTI 0
#else
#define M_MULTI 1
#endif
#define NB 4   /* user buffer elements: count[i] <= 2, ND <= 2 */

struct inputs {
    long long shape[ND], start[ND], count[ND], stride[ND];
    long long numrecs, begin, recsize_other, begin_var;
    int rank, nprocs;
    unsigned char is_rec, use_stride, coll, swap_on, swap_off, hcoll, indep_mode;
    int buf[NB];
    struct vh_env envA, envB;
};
static struct inputs in;
static char fh_i, fh_c;

static NC nc; static NC_var var, *varlist[1];
static MPI_Offset shape[ND], dsizes[ND];
static int dimids[ND];

static void setup(void) {
    memset(&nc, 0, sizeof nc); memset(&var, 0, sizeof var);
    for (int i = 0; i < ND; i++) { shape[i] = in.shape[i]; dimids[i] = i; }
    if (in.is_rec) shape[0] = NC_UNLIMITED;
    /* dsizes: right-to-left products, the record dimension contributes 1 (as ncmpio_NC_var_shape64 computes) */
    MPI_Offset prod = 1;
    for (int i = ND - 1; i >= 0; i--) { if (!(i == 0 && in.is_rec)) prod *= shape[i]; dsizes[i] = prod; }
    var.varid = 0; var.xsz = 4; var.xtype = NC_INT; var.ndims = ND; var.dimids = dimids; var.shape = shape; var.dsizes = dsizes;
    var.begin = in.begin; var.len = prod * 4;
    varlist[0] = &var;
    nc.vars.ndefined = 1; nc.vars.num_rec_vars = in.is_rec ? 1 : 0; nc.vars.value = varlist;
    nc.format = 5; nc.rank = in.rank; nc.nprocs = in.nprocs; nc.comm = MPI_COMM_WORLD;
    nc.independent_fh = (MPI_File)&fh_i; nc.collective_fh = (MPI_File)&fh_c;
    nc.numrecs = in.numrecs; nc.begin_var = in.begin_var; nc.begin_rec = in.is_rec ? in.begin : in.begin_var;
    nc.recsize = in.is_rec ? var.len + in.recsize_other : 0;
    nc.my_aggr = -1; nc.ibuf_size = 16777216;
    nc.flags = (in.swap_on ? NC_MODE_SWAP_ON : 0) | (in.swap_off ? NC_MODE_SWAP_OFF : 0) | (in.hcoll ? NC_HCOLL : 0) |
               (in.indep_mode ? NC_MODE_INDEP : 0);
}

struct trace { int n; struct vt_event ev[VT_MAX]; int failed, any_failed, type_live; };
static void save(struct trace *t) { t->n = vt_n; memcpy(t->ev, vt_ev, sizeof vt_ev); t->failed = vt_io_failed; t->any_failed = vt_any_failed; t->type_live = vt_type_live; }

/* explicit-offset and individual-file-pointer forms of a collective data access match each other */
static int norm(int k) { return k == EV_WRITE_ALL ? EV_WRITE_AT_ALL : k == EV_READ_ALL ? EV_READ_AT_ALL : k; }

VH_MAIN {
    VH_INPUTS(in0); in = in0;
    /* job parameters (concrete per job: keeps the control flow of each run, and hence the trace indices, concrete) */
#ifdef P_REC
    in.is_rec = P_REC;
#endif
#ifdef P_STRIDE
    in.use_stride = P_STRIDE;
#endif
#ifdef P_COLL
    in.coll = P_COLL; in.indep_mode = !P_COLL;
#endif
#ifdef P_NPROCS1
    in.nprocs = 1; in.rank = 0;
#else
    ASSUME(in.nprocs >= 2);
#endif
    ASSUME(in.nprocs >= 1 && in.nprocs <= 4 && in.rank >= 0 && in.rank < in.nprocs);
    ASSUME(in.begin_var >= 32 && in.begin_var <= (1LL << 31) - 1 && in.begin >= in.begin_var && in.begin < (1LL << 40) && (in.begin & 3) == 0);
    ASSUME(in.numrecs >= 0 && in.numrecs < (1LL << 31) && in.recsize_other >= 0 && in.recsize_other < (1LL << 30) && (in.recsize_other & 3) == 0);
    ASSUME(!(in.swap_on && in.swap_off));
    long long nelems = 1, need = 0;
    for (int i = 0; i < ND; i++) {
        ASSUME(in.shape[i] >= 1 && in.shape[i] <= (1LL << 20));
#ifdef ALLOW_ZERO_COUNT
        ASSUME(in.count[i] >= 0 && in.count[i] <= 2 && in.start[i] >= 0 && in.start[i] < (1LL << 31) && in.stride[i] >= 1 && in.stride[i] <= (1LL << 20));
#else
        ASSUME(in.count[i] >= 1 && in.count[i] <= 2 && in.start[i] >= 0 && in.start[i] < (1LL << 31) && in.stride[i] >= 1 && in.stride[i] <= (1LL << 20));
#endif
        long long last = in.count[i] == 0 ? in.start[i] : in.start[i] + (in.count[i] - 1) * (in.use_stride ? in.stride[i] : 1);
        if (i == 0 && in.is_rec) { ASSUME(last < (1LL << 31)); need = last + 1; }
        else ASSUME(in.count[i] == 0 ? last <= in.shape[i] : last < in.shape[i]);   /* the request was accepted by the dispatcher (C15.a) */
        nelems *= in.count[i];
    }
    if (nelems == 0) need = 0;                          /* a request without elements needs no record */
    MPI_Offset start[ND], count[ND], stride[ND];
    for (int i = 0; i < ND; i++) { start[i] = in.start[i]; count[i] = in.count[i]; stride[i] = in.stride[i]; }
    int buf[NB], buf0[NB];
    memcpy(buf, in.buf, sizeof buf); memcpy(buf0, in.buf, sizeof buf);
    /* the file mode matches the API family: collective calls in collective data mode, independent in independent */
    ASSUME((in.coll != 0) == (in.indep_mode == 0));
    int mode = NC_REQ_WR | NC_REQ_BLK | NC_REQ_HL | (in.coll ? NC_REQ_COLL : NC_REQ_INDEP);
    struct trace A, B;

    /* ---------------- run A: the valid request ---------------- */
    setup(); vh_env_reset(&in.envA); vt_reset(in.rank, in.nprocs);
#ifdef CHECK_C11
    vt_inject_io = 1;
#else
    vt_inject_io = 0;
#endif
    int errA = ncmpio_put_var(&nc, 0, start, count, in.use_stride ? stride : NULL, NULL, buf, NC_COUNT_IGNORE, MPI_INT, mode);
    save(&A);
    long long numrecsA = nc.numrecs; int dirtyA = (nc.flags & NC_NDIRTY) != 0;
#if M_REC && M_COLL && M_MULTI
    COVER(in.is_rec && in.coll && in.nprocs > 1 && errA == NC_NOERR, "collective put to a record variable");
#endif
#if M_STRIDE && M_REC != 1
    COVER(!in.is_rec && in.use_stride && ND > 0 && in.count[ND - 1] == 2 && in.stride[ND - 1] > 1 && errA == NC_NOERR, "strided put");
#endif

#ifdef CHECK_C13
    ASSERT(memcmp(buf, buf0, sizeof buf) == 0, "the caller's buffer holds its original contents when the put returns");
    COVER(in.swap_on && errA == NC_NOERR, "in-place swap enabled");
#endif
#ifdef CHECK_C17
    ASSERT(A.type_live == 0, "every MPI datatype created by the put has been freed when it returns");
#endif
#ifdef CHECK_C11
    if (A.failed) ASSERT(errA != NC_NOERR, "an MPI-IO failure during the put is returned by the put");
    COVER(A.failed && errA != NC_NOERR, "failed write reported");
#endif
#ifdef CHECK_C05
    if (in.is_rec) {
        ASSERT(numrecsA >= in.numrecs, "the record count never decreases");
        if (in.coll) {
            long long reduced = in.nprocs > 1 ? -1 : need;
            for (int k = 0; k < A.n; k++) if (A.ev[k].kind == EV_ALLREDUCE && A.ev[k].op == 1) {
                reduced = A.ev[k].val;
                if (errA == NC_NOERR) {
                    ASSERT(A.ev[k].own >= need, "the value this rank contributes to the agreement covers every record it wrote");
                    ASSERT(A.ev[k].own <= (in.numrecs > need ? in.numrecs : need), "this rank does not claim records it neither wrote nor already had");
                }
            }
            if (in.nprocs > 1) ASSERT(vt_count_kind(EV_ALLREDUCE) == 1, "a collective put to a record variable agrees on the record count with one Allreduce(MAX)");
            if (errA == NC_NOERR) {
                ASSERT(numrecsA >= need, "collective put: every written record is inside the record count");
                ASSERT(numrecsA == (in.numrecs > reduced ? in.numrecs : reduced), "collective put: record count = max(old, value agreed by all processes)");
                ASSERT(!dirtyA, "collective put leaves no pending record-count update");
                if (in.rank == 0 && numrecsA > in.numrecs)
                    ASSERT(vt_count_kind(EV_WRITE_AT) + vt_count_kind(EV_WRITE_AT_ALL) >= 2, "root stores the grown record count in the file header");
            }
        } else if (errA == NC_NOERR) {
            ASSERT(numrecsA == (in.numrecs > need ? in.numrecs : need), "independent put: local record count = max(old, own need)");
            ASSERT(dirtyA == (need > in.numrecs), "independent put marks the record count dirty exactly when it grew");
            ASSERT(vt_count_kind(EV_ALLREDUCE) == 0, "independent put performs no collective communication");
        }
#if M_COLL && M_REC
        COVER(in.coll && errA == NC_NOERR && numrecsA > in.numrecs && in.rank == 0, "record count grown and written");
#elif M_REC
        COVER(errA == NC_NOERR && numrecsA > in.numrecs && dirtyA, "independent put grew the local record count");
#endif
#if defined(ALLOW_ZERO_COUNT) && ND >= 2
        COVER(nelems == 0 && in.count[0] > 0 && in.start[0] + in.count[0] > in.numrecs && errA == NC_NOERR, "zero-length request reaching past the record count");
#endif
    } else ASSERT(numrecsA == in.numrecs, "a put to a fixed-size variable does not change the record count");
#endif

#if defined(CHECK_C08) || defined(CHECK_C15)
    /* ---------------- run B: same call on a rank whose request is zero-length / invalid ---------------- */
    ASSUME(in.coll);
    memcpy(buf, in.buf, sizeof buf);
    setup(); vh_env_reset(&in.envB); vt_reset(in.rank, in.nprocs); vt_inject_io = 0;
    /* Allreduce delivers the same value on every rank: force A's results */
    vt_force_cnt = 0;
    for (int k = 0; k < A.n; k++) if (A.ev[k].kind == EV_ALLREDUCE && vt_force_cnt < 4) vt_force_val[vt_force_cnt++] = A.ev[k].val;
    int errB = ncmpio_put_var(&nc, 0, start, count, in.use_stride ? stride : NULL, NULL, buf, NC_COUNT_IGNORE, MPI_INT, mode | NC_REQ_ZERO);
    save(&B);
#ifdef CHECK_C15
    for (int k = 0; k < B.n && k < VT_MAX; k++)
        if (B.ev[k].kind >= EV_WRITE_AT_ALL && B.ev[k].kind <= EV_READ)
            ASSERT(B.ev[k].count == 0 || B.ev[k].val == 0, "a zero-length or rejected request transfers no byte");
    ASSERT(memcmp(buf, in.buf, sizeof buf) == 0, "a zero-length request leaves the caller's buffer alone");
    ASSERT(nc.numrecs == in.numrecs || (in.nprocs > 1 && vt_force_cnt > 0), "a zero-length request does not change the record count by itself");
    COVER(B.n >= 2, "zero-length rank still takes part in the I/O calls");
#endif
#ifdef CHECK_C08
    if (in.nprocs > 1) {
        int ia = 0, ib = 0, mismatch = 0;
        for (;;) {
            while (ia < A.n && !A.ev[ia].collective) ia++;
            while (ib < B.n && !B.ev[ib].collective) ib++;
            if (ia >= A.n || ib >= B.n) break;
            if (norm(A.ev[ia].kind) != norm(B.ev[ib].kind) || A.ev[ia].handle != B.ev[ib].handle) mismatch = 1;
            ia++; ib++;
        }
        ASSERT(!mismatch, "collective calls match pairwise (same kind on the same communicator / file handle)");
#ifdef KF_EXCLUDE_C08_zero_req_recvar
        /* listed finding: on a record variable the valid rank ends with ONE extra Allreduce (record count) that the
         * zero-length rank never makes; everything else must still match */
        if (in.is_rec && ib >= B.n && ia < A.n && A.ev[ia].kind == EV_ALLREDUCE) {
            ia++; while (ia < A.n && !A.ev[ia].collective) ia++;
            /* ... followed, with collective header I/O, by the collective write of the record count */
            if (in.hcoll && ia < A.n && A.ev[ia].kind == EV_WRITE_AT_ALL && A.ev[ia].off == (in.rank == 0 ? 4 : 0)) { ia++; while (ia < A.n && !A.ev[ia].collective) ia++; }
        }
#endif
        ASSERT(ia >= A.n && ib >= B.n, "both ranks make the same number of collective calls (nobody is left waiting)");
        ASSERT(errB == NC_NOERR, "the zero-length rank's driver call succeeds (its own error code comes from the dispatcher)");
        COVER(A.n >= 2 && errA == NC_NOERR, "valid rank wrote with several collective calls");
    }
#endif
#endif
    WITNESS_END();
    VH_RETURN;
}
