/* C12.a -- burst-buffer driver, staging of a write in the log: ncbbio_log_put_varn (ncbbio_log_put.c) with
 * ncbbio_log_buffer_alloc, ncbbio_log_sizearray_append, ncbbio_metaidx_add (ncbbio_mem.c) real; the shared-file layer
 * (ncbbio_sharedfile_write/seek/pwrite) and PNC_check_id are recorders.  Sources compiled with -DENABLE_BURST_BUFFER
 * (the default build does not compile src/drivers/ncbbio).
 * ANY log state (sizes so far) + one put_varn of NUM sub-requests on a 1-D variable (fixed or record) ->
 *   the appended entry encodes exactly (varid, type, ndims, num, starts, counts or 1s), data_off = bytes logged before,
 *   data_len = total bytes; the data goes to the data log BEFORE the entry count is bumped in the metadata log;
 *   bookkeeping invariants needed by the flush: datalogsize grows by data_len, num_entries by 1,
 *   maxentrysize >= data_len of EVERY entry (the flush sizes its buffer by it), recdimsize >= every record written.
 */
#include "vh.h"
#include <mpi.h>
#include <pnetcdf.h>
#include <dispatch.h>
#include <ncbbio_driver.h>
#ifndef NUM
#define NUM 2
#endif
struct inputs { long long start[NUM], count[NUM]; long long datalogsize, maxentrysize, recdimsize, num_entries; unsigned char is_rec, counts_null; int varid; };
static struct inputs in;
static PNC pnc; static PNC_var pv[1]; static NC_bb bb; static NC_bb_sharedfile fdm, fdd;
static char metabuf[512]; static size_t szvals[8]; static NC_bb_metadataptr idx[8];
int PNC_check_id(int ncid, PNC **pncp) { *pncp = &pnc; return NC_NOERR; }
static int nwr, order_data = -1, order_entry = -1, order_count = -1; static long long data_bytes = -1;
int ncbbio_sharedfile_write(NC_bb_sharedfile *f, void *buf, size_t n) { if (f == &fdd) { order_data = nwr; data_bytes = n; } else order_entry = nwr; nwr++; return NC_NOERR; }
int ncbbio_sharedfile_pwrite(NC_bb_sharedfile *f, void *buf, size_t n, off_t off) { if (f == &fdm && off == 56) order_count = nwr; nwr++; return NC_NOERR; }
int ncbbio_sharedfile_seek(NC_bb_sharedfile *f, off_t off, int whence) { return NC_NOERR; }

VH_MAIN {
    VH_INPUTS(in0); in = in0;
    ASSUME(in.datalogsize >= 0 && in.datalogsize < (1LL << 40) && in.maxentrysize >= 0 && in.maxentrysize < (1LL << 40));
    ASSUME(in.recdimsize >= 0 && in.recdimsize < (1LL << 31) && in.num_entries >= 0 && in.num_entries < 1000);
    pv[0].ndims = 1; pv[0].recdim = in.is_rec ? 0 : -1; pv[0].xtype = NC_INT; pnc.vars = pv; pnc.nvars = 1;
    NC_bb_metadataheader *h = (NC_bb_metadataheader *)metabuf;
    h->num_entries = in.num_entries; h->entry_begin = 128;
    bb.metadata.buffer = metabuf; bb.metadata.nalloc = sizeof metabuf; bb.metadata.nused = 128;
    bb.entrydatasize.values = szvals; bb.entrydatasize.nalloc = 8; bb.entrydatasize.nused = 0;
    bb.metaidx.entries = idx; bb.metaidx.nalloc = 8; bb.metaidx.nused = 0;
    bb.datalogsize = in.datalogsize; bb.maxentrysize = in.maxentrysize; bb.recdimsize = in.recdimsize; bb.metalog_fd = &fdm; bb.datalog_fd = &fdd;
    MPI_Offset st[NUM][1], ct[NUM][1], *starts[NUM], *counts[NUM];
    long long total = 0, maxrec = 0;
    for (int j = 0; j < NUM; j++) {
        ASSUME(in.start[j] >= 0 && in.start[j] < (1LL << 20) && in.count[j] >= 0 && in.count[j] <= 64);
        st[j][0] = in.start[j]; ct[j][0] = in.count[j]; starts[j] = st[j]; counts[j] = ct[j];
        long long c = in.counts_null ? 1 : in.count[j];
        total += 4 * c;
        if (c > 0 && in.start[j] + c > maxrec) maxrec = in.start[j] + c;
    }
    int buf[64 * NUM];
    int err = ncbbio_log_put_varn(&bb, 0, NUM, starts, in.counts_null ? NULL : counts, buf, MPI_INT);
    ASSERT(err == NC_NOERR, "staging succeeds");
    NC_bb_metadataentry *e = (NC_bb_metadataentry *)(metabuf + 128);
    ASSERT(e->varid == 0 && e->ndims == 1 && e->api_kind == NUM, "the log entry names the variable, its rank and the number of sub-requests");
    ASSERT(e->data_off == in.datalogsize && e->data_len == total, "the entry points at the bytes appended to the data log (offset = bytes logged before, length = total of all sub-requests)");
    MPI_Offset *S = (MPI_Offset *)(metabuf + 128 + sizeof(NC_bb_metadataentry)), *C = S + NUM;
    for (int j = 0; j < NUM; j++) { ASSERT(S[j] == in.start[j], "starts recorded per sub-request"); if (!in.counts_null) ASSERT(C[j] == in.count[j], "counts recorded per sub-request"); }
    ASSERT((long long)bb.datalogsize == in.datalogsize + total, "data-log size grows by the bytes staged");
    ASSERT(h->num_entries == in.num_entries + 1, "entry count grows by one");
    ASSERT(data_bytes == total && order_data >= 0 && order_entry > order_data && order_count > order_entry, "data is written to the data log before the entry, and the entry before the entry count is bumped");
    ASSERT(bb.maxentrysize >= total && bb.maxentrysize >= in.maxentrysize, "maxentrysize bounds the data of EVERY logged entry (the flush sizes its buffer by it)");
    if (in.is_rec) ASSERT(bb.recdimsize >= maxrec && bb.recdimsize >= in.recdimsize, "the record count seen through the driver covers every record staged");
    else ASSERT(bb.recdimsize == in.recdimsize, "fixed-size variables do not change the record count");
    ASSERT(szvals[0] == (size_t)total && idx[0].valid == 1, "per-entry size and index bookkeeping");
#if NUM > 1
    COVER(!in.counts_null && in.count[0] > in.count[NUM - 1] && in.count[NUM - 1] > 0 && total > in.maxentrysize, "first sub-request larger than the last, entry larger than every earlier one");
#else
    COVER(total > in.maxentrysize, "entry larger than every earlier one");
#endif
    COVER(in.is_rec && maxrec > in.recdimsize, "record count raised");
    WITNESS_END();
    VH_RETURN;
}
