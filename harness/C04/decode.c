/* C04.a / C19.a -- header decoders of src/drivers/ncmpio/ncmpio_header_get.c (static, textual inclusion) entered from an
 * ARBITRARY read-window state: the header is read through a window of CHUNK bytes (real chunks: 256 KiB; the decoder code
 * is generic in the chunk size) over a symbolic file image of IMG bytes; the window holds file bytes
 * [winstart, winstart+CHUNK) (zero beyond end of file), the read position is anywhere in it (4-byte aligned).
 * Obligation per decoder: the decoded value is what the format grammar reads at the logical file position L (big-endian,
 * widths per format version VER), the logical position advances by exactly the encoded size incl. padding, and the window
 * still mirrors the file - independent of CHUNK and of where the chunk boundaries fall (hdr_fetch's slack handling).
 * With no validity assumption on the bytes (C19): no out-of-bounds access, errors are netCDF error codes.
 */
#include "vh.h"
#include "mpi_model.h"
#include <pnetcdf.h>
#ifdef DEC_VAR
#include <dispatch.h>
#include <ncmpio_NC.h>
static int hdr_get_NC_attrarray(bufferinfo *gbp, NC_attrarray *ncap);   /* cut: see below */
#endif
#include "u/ncmpio_header_get.c"
#ifdef DEC_VAR
/* cut of the variable's attribute list decoder: reads the tag and the count with the real field decoders and accepts the
 * ABSENT list (count 0); the list decoders are separate obligations */
static int hdr_get_NC_attrarray(bufferinfo *gbp, NC_attrarray *ncap) {
    NC_tag tag; int err = hdr_get_NC_tag(gbp, &tag); if (err != NC_NOERR) return err;
    if (gbp->version < 5) { uint t; err = hdr_get_uint32(gbp, &t); if (err != NC_NOERR) return err; if (t != 0) return NC_ENOTNC; }
    else { uint64 t; err = hdr_get_uint64(gbp, &t); if (err != NC_NOERR) return err; if (t != 0) return NC_ENOTNC; }
    ncap->ndefined = 0; return NC_NOERR;
}
#endif
#ifndef CHUNK
#define CHUNK 8
#endif
#ifndef IMG
#define IMG 40
#endif
#ifndef VER
#define VER 5
#endif
struct inputs { unsigned char img[IMG]; unsigned char spare[8]; int flen, winstart, posk; int f_ndims; struct vh_env env; };
static struct inputs in;
static char fh_c;
static unsigned char fbyte(long long o) { return (o >= 0 && o < in.flen && o < IMG) ? in.img[o] : 0; }
static unsigned long long be(long long o, int w) { unsigned long long v = 0; for (int k = 0; k < w; k++) v = (v << 8) | fbyte(o + k); return v; }
#define W (VER < 5 ? 4 : 8)                                   /* width of NON_NEG fields */
/* the window object has 8 spare bytes behind `end`: the decoders' `pos + n > end` tests then stay inside the object (forming a
 * pointer beyond one-past-the-end is standard-level UB that CBMC would flag and no sanitizer confirms; reported in DESIGN.md).
 * The spare bytes are unconstrained inputs: a decoder that read them could not satisfy the grammar equalities below. */
static void force_be(long long o, int w, unsigned long long v) { for (int k = 0; k < w; k++) if (o + k < IMG) in.img[o + k] = (unsigned char)(v >> (8 * (w - 1 - k))); }
static bufferinfo g; static char window[CHUNK + 8];
static long long logical(void) { return (long long)g.offset - CHUNK + (g.pos - g.base); }
static void window_mirrors_file(void) {
    long long ws = (long long)g.offset - CHUNK;
    for (int i = 0; i < CHUNK; i++) if (g.base + i >= g.pos) ASSERT((unsigned char)g.base[i] == fbyte(ws + i), "after decoding, the unread part of the window still holds the file bytes at its offsets (no byte skipped or repeated)");
}

VH_MAIN {
    VH_INPUTS(in0); in = in0;
#ifdef POSK
    in.posk = POSK; in.winstart = WINSTART;     /* concrete per job: keeps every image index concrete */
#endif
    ASSUME(in.flen >= 0 && in.flen <= IMG && in.winstart >= 0 && in.winstart <= IMG && (in.winstart & 3) == 0);
    ASSUME(in.posk >= 0 && in.posk <= CHUNK && (in.posk & 3) == 0);
    vh_env_reset(&in.env); vt_reset(0, 1); vt_file = in.img; vt_file_len = in.flen;
    { long long L0 = in.winstart + in.posk; (void)L0;
#if defined(DEC_NAME) && defined(NLEN)
      ASSUME(in.flen >= L0 + W); force_be(L0, W, NLEN);          /* name length concrete per job (length field inside the file) */
#endif
#if defined(DEC_VAR) && defined(NLEN)
      in.flen = IMG;                                              /* whole entry inside the file (assignment: keeps the forced fields constant) */
      force_be(L0, W, NLEN); { long long p0 = L0 + W + (NLEN + 3) / 4 * 4; force_be(p0, W, NDIMS); p0 += W + (long long)NDIMS * W; force_be(p0, 4, 0); force_be(p0 + 4, W, 0); }
#endif
    }
    vt_file_len = in.flen;
    for (int i = 0; i < CHUNK; i++) window[i] = (char)fbyte(in.winstart + i);
    for (int i = 0; i < 8; i++) window[CHUNK + i] = (char)in.spare[i];
    g.comm = MPI_COMM_WORLD; g.collective_fh = (MPI_File)&fh_c; g.offset = in.winstart + CHUNK; g.chunk = CHUNK; g.version = VER;
    g.base = window; g.pos = window + in.posk; g.end = window + CHUNK; g.safe_mode = 0; g.coll_mode = 0;
    long long L = in.winstart + in.posk;
    ASSUME(L + 64 < (1LL << 20));
    int err;
#ifdef DEC_UINT
    { uint v32 = 0; uint64 v64 = 0;
      err = hdr_get_uint32(&g, &v32);
      ASSERT(err == NC_NOERR && v32 == (uint)be(L, 4), "32-bit field = big-endian bytes at the logical position");
      ASSERT(logical() == L + 4, "position advances by 4");
      long long L2 = L + 4;
      err = hdr_get_uint64(&g, &v64);
      ASSERT(err == NC_NOERR && v64 == be(L2, 8), "64-bit field = big-endian bytes at the logical position (also when it straddles a window boundary)");
      ASSERT(logical() == L2 + 8, "position advances by 8");
      window_mirrors_file();
#if POSK == CHUNK - 8
      COVER(1, "a 64-bit field straddles the window boundary (4 bytes of slack carried over)");
#endif
      COVER(L + 12 > in.flen && L < in.flen, "field runs past end of file"); }
#endif
#ifdef DEC_NAME
    { char *name = NULL; size_t nl = 12345;
      unsigned long long n = be(L, W);
      ASSUME(n <= NMAX || n > NC_MAX_NAME);                       /* stated bound on the name length (or the rejected case) */
      err = hdr_get_NC_name(&g, &name, &nl);
      if (n > NC_MAX_NAME) ASSERT(err == NC_EMAXNAME && name == NULL, "a name longer than NC_MAX_NAME is rejected");
      else {
          ASSERT(err == NC_NOERR && nl == n && name != NULL, "name length read from the file");
          for (int k = 0; k < NMAX; k++) if (k < (int)n) ASSERT((unsigned char)name[k] == fbyte(L + W + k), "name bytes are the file bytes that follow the length field");
          ASSERT(name[n] == 0, "name is NUL terminated");
          ASSERT(logical() == L + W + (long long)((n + 3) / 4 * 4), "position advances over the name and its padding to a 4-byte boundary");
          window_mirrors_file();
          COVER(n == NLEN, "name of this job's length decoded");
          COVER(n % 4 == 1, "name with 3 bytes of padding");
          free(name);
      } }
#endif
#ifdef DEC_VAR
    { NC_var *vp = NULL;
      ASSUME(in.f_ndims >= 0 && in.f_ndims <= 3);
      /* bound: name <= 4 bytes, <= 2 dimension ids, no variable attributes (tag/count fields read as ABSENT) */
      unsigned long long nl = be(L, W); ASSUME(nl <= 4);
      long long p = L + W + (long long)((nl + 3) / 4 * 4);
      unsigned long long nd = be(p, W);
#ifdef VALID_ONLY
      ASSUME(nd <= 2);
#else
      ASSUME(nd <= 2 || nd > 2147483647ULL);
#endif
      p += W;
      unsigned long long did[2] = { 0, 0 }; for (int k = 0; k < 2; k++) if (k < (int)nd) { did[k] = be(p, W); p += W; }
      unsigned long long atag = be(p, 4), acnt = be(p + 4, W); ASSUME(acnt == 0);
      p += 4 + W;
      unsigned long long ty = be(p, 4), vsz = be(p + 4, W), bg = be(p + 4 + W, VER == 1 ? 4 : 8);
      long long endp = p + 4 + W + (VER == 1 ? 4 : 8);
      err = hdr_get_NC_var(&g, &vp, in.f_ndims);
      int baddim = 0; for (int k = 0; k < 2; k++) if (k < (int)nd && did[k] >= (unsigned long long)in.f_ndims) baddim = 1;
      int badtype = (ty < NC_BYTE) || (VER < 5 ? ty > NC_DOUBLE : ty > NC_UINT64);
      if (nd > 2147483647ULL) ASSERT(err == NC_EMAXDIMS, "a dimension count beyond NC_MAX_VAR_DIMS is rejected");
      else if (baddim) ASSERT(err == NC_EBADDIM && vp == NULL, "a dimension id outside [0, number of dimensions) is rejected with NC_EBADDIM");
      else if (badtype) ASSERT(err == NC_EBADTYPE && vp == NULL, "an undefined type code is rejected with NC_EBADTYPE");
      else {
          ASSERT(err == NC_NOERR && vp != NULL, "a variable entry that follows the grammar is accepted");
          ASSERT(vp->ndims == (int)nd && vp->name_len == nl, "ndims and name length as encoded");
          for (int k = 0; k < 2; k++) if (k < (int)nd) ASSERT(vp->dimids[k] == (int)did[k] && vp->dimids[k] >= 0 && vp->dimids[k] < in.f_ndims, "dimension ids as encoded and inside the dimension list");
          ASSERT(vp->xtype == (nc_type)ty && (unsigned long long)vp->begin == bg, "type and begin offset as encoded (begin width per format)");
          ASSERT(logical() == endp, "position advances by exactly the encoded size of the variable entry");
          window_mirrors_file();
          COVER(nd == NDIMS, "variable entry of this job's shape decoded");
          (void)vsz; (void)atag;
      }
      COVER(baddim && nd >= 1 && did[0] >= 0x80000000ULL, "dimension id with the top bit set");
    }
#endif
    WITNESS_END();
    VH_RETURN;
}
