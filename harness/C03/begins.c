/* C03.c / C10.b / C18.d -- file layout computed at enddef: NC_begins (static in ncmpio_enddef.c, textual inclusion).
 * NV variables, any fixed/record mix, symbolic lengths (multiples of 4), symbolic header size and minfree values,
 * alignments H_ALIGN / R_ALIGN concrete per job (divisions by a constant), format CDF-1/2/5;
 * create (old == NULL) or redefinition (old = a prefix of the schema laid out by an earlier enddef, symbolic, satisfying
 * the create post-condition).  Obligations: variable areas follow the header in definition order, 4-byte aligned,
 * non-overlapping, fixed before record; requested alignments and free space honoured; single-record-variable packing
 * rule; nothing ever moves to a smaller offset in a redefinition; CDF-1 offsets beyond 2^31-1 => NC_EVARSIZE.
 */
#include "vh.h"
#include "mpi_model.h"
#include <pnetcdf.h>
#include "u/ncmpio_enddef.c"
#ifndef NV
#define NV 3
#endif
#ifndef H_ALIGN
#define H_ALIGN 512
#endif
#ifndef R_ALIGN
#define R_ALIGN 4
#endif
struct inputs {
    unsigned char nv, fmt, is_rec[NV], xsel[NV];
    long long nelem[NV], xsz_hdr, h_minfree, v_minfree;
    unsigned char redef, no;                       /* redefinition: the first `no` variables existed before */
    long long o_begin_var, o_begin_rec, o_gap[NV]; /* old layout: gaps in front of each old fixed variable */
    struct vh_env env;
};
static struct inputs in;
MPI_Offset ncmpio_hdr_len_NC(const NC *ncp) { return in.xsz_hdr; }       /* header size: symbolic (encoder checked in C03.a) */
int ncmpio_hdr_put_NC(NC *ncp, void *buf) { return NC_NOERR; }
static NC nc, old; static NC_var v[NV], ov[NV], *vl[NV], *ovl[NV]; static MPI_Offset shp[NV][2], ds[NV][2];

VH_MAIN {
    VH_INPUTS(in0); in = in0;
    /* concrete per job: number of variables, which are record variables (bit mask KINDS), create / redefinition with
     * the first REDEF_NO variables pre-existing */
    in.nv = NV;
    for (int i = 0; i < NV; i++) in.is_rec[i] = (KINDS >> i) & 1;
#if REDEF_NO >= 0
    in.redef = 1; in.no = REDEF_NO;
#else
    in.redef = 0; in.no = 0;
#endif
    int nv = in.nv; ASSUME(nv >= 0 && nv <= NV && (in.fmt == 1 || in.fmt == 2 || in.fmt == 5));
    ASSUME(in.xsz_hdr >= 32 && in.xsz_hdr < (1LL << 33) && in.h_minfree >= 0 && in.h_minfree < (1LL << 33) && in.v_minfree >= 0 && in.v_minfree < (1LL << 33));
    vh_env_reset(&in.env); vt_reset(0, 1);
    int nfix = 0, nrec = 0;
    long long len[NV];
    for (int i = 0; i < NV; i++) {
        ASSUME(in.xsel[i] < 4 && in.nelem[i] >= 1 && in.nelem[i] < (1LL << 33));   /* every variable has at least one element per record */
        int xsz = 1 << in.xsel[i];
        len[i] = ((in.nelem[i] * xsz + 3) / 4) * 4;
        v[i].xsz = xsz; v[i].shape = shp[i]; v[i].dsizes = ds[i]; v[i].len = len[i]; v[i].ndims = in.is_rec[i] ? 2 : 1; vl[i] = &v[i];
        if (in.is_rec[i]) { shp[i][0] = NC_UNLIMITED; shp[i][1] = in.nelem[i]; ds[i][0] = in.nelem[i]; ds[i][1] = in.nelem[i]; }
        else { ASSUME(in.nelem[i] != 0); shp[i][0] = in.nelem[i]; ds[i][0] = in.nelem[i]; }
        if (i < nv) { if (in.is_rec[i]) nrec++; else nfix++; }
    }
    nc.format = in.fmt; nc.vars.ndefined = nv; nc.vars.value = vl; nc.nprocs = 1; nc.safe_mode = 0;
    nc.h_align = H_ALIGN; nc.r_align = R_ALIGN; nc.v_align = 4; nc.h_minfree = in.h_minfree; nc.v_minfree = in.v_minfree;
    nc.flags = NC_MODE_DEF | (in.redef ? 0 : NC_MODE_CREATE);
    /* ---- old layout (redefinition) ---- */
    int no = 0; long long o_end_fix = 0, o_recsize = 0;
    if (in.redef) {
        no = in.no; ASSUME(no <= nv);
        ASSUME(in.o_begin_var >= 32 && in.o_begin_var < (1LL << 34) && (in.o_begin_var & 3) == 0);
        long long e = in.o_begin_var; int first = 1;
        for (int i = 0; i < NV; i++) { ov[i] = v[i]; ovl[i] = &ov[i]; }
        for (int i = 0; i < NV; i++) if (i < no && !in.is_rec[i]) {
            ASSUME(in.o_gap[i] >= 0 && in.o_gap[i] < (1LL << 20) && (in.o_gap[i] & 3) == 0);
            ov[i].begin = first ? e : e + in.o_gap[i]; first = 0; e = ov[i].begin + len[i];
        }
        o_end_fix = e;
        ASSUME(in.o_begin_rec >= o_end_fix && in.o_begin_rec < (1LL << 35) && (in.o_begin_rec & 3) == 0);
        long long r = in.o_begin_rec;
        for (int i = 0; i < NV; i++) if (i < no && in.is_rec[i]) { ov[i].begin = r; r += len[i]; o_recsize += len[i]; }
        old.vars.ndefined = no; old.vars.value = ovl; old.begin_var = in.o_begin_var; old.begin_rec = in.o_begin_rec; old.recsize = o_recsize;
        int ofix = 0; for (int i = 0; i < NV; i++) if (i < no && !in.is_rec[i]) ofix++;
        if (ofix == 0) ASSUME(in.o_begin_var == in.o_begin_rec);
        nc.old = &old; nc.begin_rec = in.o_begin_rec; nc.begin_var = in.o_begin_var;
    }

    int err = NC_begins(&nc);

    if (err == NC_NOERR) {
        long long e = nc.begin_var, sumrec = 0; int lastrec = -1, firstfix = 1;
        ASSERT(nc.begin_var >= in.xsz_hdr, "the data section starts after the header");
        if (nv > 0 && !in.redef) {
            ASSERT(nc.begin_var >= in.xsz_hdr + in.h_minfree, "create: header free space honoured");
            /* the header alignment applies to the start of the fixed-size variables; a file with record variables only starts its
             * data section at the record section (aligned by the record alignment, after the second free-space request) */
            if (nfix > 0) ASSERT(nc.begin_var % H_ALIGN == 0, "create: header alignment honoured");
            else ASSERT(nc.begin_var >= ((in.xsz_hdr + in.h_minfree + H_ALIGN - 1) / H_ALIGN) * H_ALIGN, "create, record variables only: the data section starts at or after the aligned header extent");
        }
        for (int i = 0; i < NV; i++) if (i < nv && !in.is_rec[i]) {
            ASSERT((v[i].begin & 3) == 0, "fixed-size variable begins are 4-byte aligned");
            ASSERT(v[i].begin >= e, "fixed-size variables follow each other in definition order without overlap");
            if (firstfix) ASSERT(v[i].begin == nc.begin_var, "the first fixed-size variable starts the data section");
            firstfix = 0; e = v[i].begin + len[i];
            if (in.fmt == 1) ASSERT(v[i].begin <= 2147483647LL, "CDF-1: accepted variable offsets fit in 31 bits");
            if (in.redef && i < no) ASSERT(v[i].begin >= ov[i].begin, "redefinition never moves a variable to a smaller offset");
        }
        if (nfix > 0) ASSERT(nc.begin_rec >= e + in.v_minfree, "the record section starts after the fixed-size variables plus the requested free space");
        else if (nv > 0) ASSERT(nc.begin_rec >= in.xsz_hdr + in.h_minfree + in.v_minfree, "without fixed-size variables the record section starts after the header plus both free-space requests");
        ASSERT((nc.begin_rec & 3) == 0 && (R_ALIGN <= 1 || nc.begin_rec % R_ALIGN == 0 || in.redef), "record section alignment honoured");
        if (nfix == 0) ASSERT(nc.begin_var == nc.begin_rec, "without fixed-size variables the data section starts at the record section");
        long long r = nc.begin_rec;
        for (int i = 0; i < NV; i++) if (i < nv && in.is_rec[i]) {
            ASSERT(v[i].begin == r, "record variables are laid out consecutively inside a record, in definition order");
            r += len[i]; sumrec += len[i]; lastrec = i;
            if (in.fmt == 1) ASSERT(v[i].begin <= 2147483647LL, "CDF-1: accepted record variable offsets fit in 31 bits");
            if (in.redef && i < no) ASSERT(v[i].begin >= ov[i].begin, "redefinition never moves a record variable to a smaller offset");
        }
        if (nrec == 1) ASSERT(nc.recsize == in.nelem[lastrec] * (1 << in.xsel[lastrec]), "a single record variable is packed without padding (record size = its unpadded size)");
        else ASSERT(nc.recsize == sumrec, "the record size is the sum of the record variables' sizes");
        if (in.redef) { ASSERT(nc.begin_var >= in.o_begin_var || nv == 0, "redefinition: the data section never moves up");
                        ASSERT(nc.begin_rec >= in.o_begin_rec, "redefinition: the record section never moves up");
                        ASSERT(nc.recsize >= o_recsize || nrec <= 1, "redefinition: the record size never shrinks"); }
        COVER(nrec != 1 || ((in.nelem[lastrec >= 0 ? lastrec : 0] & 1) && in.xsel[lastrec >= 0 ? lastrec : 0] == 0), "layout accepted (single record variable: odd byte size)");
#if REDEF_NO >= 1
        COVER(in.redef && no >= 1 && nv > no && nc.begin_var > in.o_begin_var, "redefinition adding a variable with a grown header");
#endif
    } else {
        ASSERT(err == NC_EVARSIZE && in.fmt == 1, "layout computation only fails for CDF-1 offset overflow");
        COVER(1, "CDF-1 offset overflow rejected");
    }
    WITNESS_END();
    VH_RETURN;
}
