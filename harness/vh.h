/* vh.h -- conventions shared by every harness (CBMC mode and native REPLAY mode).
 *
 *  - all symbolic inputs of a harness live in ONE object `struct inputs in`
 *    obtained with VH_INPUTS(in).  CBMC: nondeterministic value, recorded in
 *    the trace through __CPROVER_input.  REPLAY: read as a raw byte blob (the
 *    bytes CBMC printed) from the file named by argv[1] / $VH_REPLAY_FILE.
 *  - ASSUME/ASSERT/COVER/WITNESS_END map to CBMC primitives or to native code.
 *  - -DWITNESS builds the vacuity twin: ASSERTs are dropped, every COVER(c,n)
 *    becomes assert(!c) (expected to FAIL = the case is reachable) and
 *    WITNESS_END() becomes assert(0).
 */
#ifndef VH_H
#define VH_H
#ifdef HAVE_CONFIG_H
#include <config.h>
#endif
#include <stddef.h>
#include <stdint.h>
#include <string.h>
#include <stdlib.h>

#ifdef REPLAY
#include <stdio.h>
extern int vh_nreached;
void vh_reached(const char *name);
void vh_read_inputs(void *p, size_t n);
#define VH_INPUTS(v) struct inputs v; vh_read_inputs(&v, sizeof v)
#define ASSUME(c) do { if (!(c)) { fprintf(stderr, "REPLAY: assumption violated: %s (%s:%d)\n", #c, __FILE__, __LINE__); exit(77); } } while (0)
#ifdef WITNESS
#define ASSERT(c, msg) do { (void)sizeof(c); } while (0)
#define COVER(c, name) do { if (c) vh_reached(name); } while (0)
#define WITNESS_END() do { vh_reached("END"); } while (0)
#else
#define ASSERT(c, msg) do { if (!(c)) { fprintf(stderr, "REPLAY: ASSERTION FAILED: %s (%s:%d)\n", msg, __FILE__, __LINE__); fflush(stderr); exit(1); } } while (0)
#define COVER(c, name) do { } while (0)
#define WITNESS_END() do { } while (0)
#endif
#define VH_MAIN int main(int argc, char **argv)
#define VH_RETURN do { fprintf(stderr, "REPLAY: harness completed\n"); return 0; } while (0)
#define __CPROVER_assume(c) ASSUME(c)
#define __CPROVER_assert(c, m) ASSERT(c, m)
#else
#define VH_INPUTS(v) struct inputs nondet_inputs(void); struct inputs v = nondet_inputs(); __CPROVER_input("in", v)
#define ASSUME(c) __CPROVER_assume(c)
#ifdef WITNESS
#define ASSERT(c, msg) do { (void)sizeof(c); } while (0)
#define COVER(c, name) __CPROVER_assert(!(c), "WITNESS " name)
#define WITNESS_END() __CPROVER_assert(0, "WITNESS END")
#else
#define ASSERT(c, msg) __CPROVER_assert(c, msg)
#define COVER(c, name) do { } while (0)
#define WITNESS_END() do { } while (0)
#endif
#define VH_MAIN void harness(void)
#define VH_RETURN return
#endif

/* ---- tape of environment answers (MPI return codes, reduced values, ...) --
 * Stubs draw their nondeterministic answers from this tape so that one input
 * object holds everything the solver chose and a replay is exact. */
#ifndef VH_ENV_N
#define VH_ENV_N 16
#endif
struct vh_env { int rc[VH_ENV_N]; long long val[VH_ENV_N]; };
extern struct vh_env *vh_envp;
extern int vh_env_rc_i, vh_env_val_i;
int vh_next_rc(void);          /* next arbitrary int answer */
long long vh_next_val(void);   /* next arbitrary 64-bit answer */
void vh_env_reset(struct vh_env *e);

#endif
