/* C09 -- numeric conversion and range checking, one (external type, memory type,
 * direction) triple per job, decided for ALL bit patterns of N elements.
 *
 * Real code: ncmpii_putn_NC_<X>() / ncmpii_getn_NC_<X>()  (convert_swap.m4)
 *            -> ncmpix_putn_NC_<X>_<i>() / ncmpix_getn_...  (ncx.m4)
 * Oracle: an independent arithmetic model written from the property statement:
 *   representable  -> exact value (float->int truncation, ->float IEEE rounding), no error from that element
 *   not representable -> NC_ERANGE returned; element = fill (put: variable's fill, get: memory type default)
 *   statement silent (strictly between MAX and MAX+1 / MIN-1 and MIN, values that round into float range, +-Inf
 *   into float) -> either outcome accepted.
 *
 * Parameters (-D): XT (NC_INT...), XK/XB kind+bits of external type, IC (C type), IK/IB, IMPI, DIR_PUT|DIR_GET, N
 *   kind: 0 signed integer, 1 unsigned integer, 2 IEEE float
 */
#include "vh.h"
#include <mpi.h>
#include <pnetcdf.h>
#include <common.h>
#include <math.h>
#include <float.h>

#ifndef N
#define N 2
#endif
#define CAT_(a,b) a##b
#define CAT(a,b) CAT_(a,b)

typedef __int128 i128;

struct inputs {
    unsigned char src[N][8];    /* raw bits of the N source values (memory type for put, external image for get) */
    unsigned char fill[8];      /* put: the variable's fill value in native representation of the external type */
    unsigned char have_fill;    /* put: fillp != NULL */
    unsigned char cdf5;         /* NC_BYTE entry points take the format */
};

/* ---- value = (is_float, integer value, double value) ------------------- */
typedef struct { int isf; i128 i; double d; } val;

static val load_native(const unsigned char *p, int kind, int bits) {
    val v; v.isf = (kind == 2); v.i = 0; v.d = 0;
    if (kind == 2) { if (bits == 32) { float f; memcpy(&f, p, 4); v.d = f; } else { memcpy(&v.d, p, 8); } }
    else if (kind == 0) {
        if (bits == 8) { signed char x; memcpy(&x, p, 1); v.i = x; }
        else if (bits == 16) { short x; memcpy(&x, p, 2); v.i = x; }
        else if (bits == 32) { int x; memcpy(&x, p, 4); v.i = x; }
        else { long long x; memcpy(&x, p, 8); v.i = x; }
    } else {
        if (bits == 8) { unsigned char x; memcpy(&x, p, 1); v.i = x; }
        else if (bits == 16) { unsigned short x; memcpy(&x, p, 2); v.i = x; }
        else if (bits == 32) { unsigned int x; memcpy(&x, p, 4); v.i = x; }
        else { unsigned long long x; memcpy(&x, p, 8); v.i = x; }
    }
    return v;
}
static void bswap(unsigned char *d, const unsigned char *s, int n) { for (int k = 0; k < n; k++) d[k] = s[n - 1 - k]; }

static i128 tmin(int kind, int bits) { return kind == 0 ? -((i128)1 << (bits - 1)) : 0; }
static i128 tmax(int kind, int bits) { return kind == 0 ? ((i128)1 << (bits - 1)) - 1 : ((i128)1 << bits) - 1; }
static double pow2(int k) { double r = 1.0; for (int j = 0; j < k; j++) r *= 2.0; return r; }

/* classification of converting v into (dk,db): 0 = representable (exact result required), 1 = must be ERANGE,
 * 2 = statement silent (either).  *out gets the exact native image of the result when class is 0 or 2. */
static int classify(val v, int dk, int db, unsigned char out[8]) {
    memset(out, 0, 8);
    if (dk != 2) {                                   /* integer destination */
        i128 lo = tmin(dk, db), hi = tmax(dk, db), r;
        int cls = 0;
        if (!v.isf) { if (v.i < lo || v.i > hi) return 1; r = v.i; }
        else {
            double d = v.d;
            double hi1 = pow2(dk == 0 ? db - 1 : db);            /* MAX+1, exact */
            double lod = (dk == 0) ? -pow2(db - 1) : 0.0;        /* MIN, exact */
            if (d != d) return 1;                                  /* NaN is not representable */
            if (d >= hi1) return 1;
            if (db == 64 ? (d < lod) : (d <= lod - 1.0)) return 1;
            if (d < lod) { cls = 2; r = lo; }                      /* (MIN-1, MIN): truncation gives MIN */
            else {
                if (db < 64 && d > (double)hi) cls = 2;          /* (MAX, MAX+1): truncation gives MAX */
                r = (dk == 0) ? (i128)(long long)d : (i128)(unsigned long long)d;
            }
        }
        unsigned long long u = (unsigned long long)r;              /* two's complement image */
        memcpy(out, &u, db / 8);
        return cls;
    }
    if (db == 64) {                                  /* double destination: every source value converts */
        double r;
        if (v.isf) { r = v.d; if (r > DBL_MAX || r < -DBL_MAX) { memcpy(out, &r, 8); return 2; } }  /* +-Inf: statement silent */
        else if (v.i < 0) r = (double)(long long)v.i; else r = (double)(unsigned long long)v.i;
        memcpy(out, &r, 8);
        return 0;
    }
    /* float destination */
    float r;
    if (!v.isf) { if (v.i < 0) r = (float)(long long)v.i; else r = (float)(unsigned long long)v.i; memcpy(out, &r, 4); return 0; }
    double a = v.d < 0 ? -v.d : v.d;
    r = (float)v.d; memcpy(out, &r, 4);
    if (v.d != v.d) return 0;                        /* NaN stays NaN (checked with isnan, not bitwise) */
    if (a <= (double)FLT_MAX) return 0;
    if (a > DBL_MAX) return 2;                       /* +-Inf: statement silent */
    if (a < (double)FLT_MAX + 0x1p103) return 2;     /* rounds back to FLT_MAX */
    return 1;
}

/* default fill of a type, native image */
static void default_fill(int kind, int bits, unsigned char out[8]) {
    memset(out, 0, 8);
    if (kind == 2) { if (bits == 32) { float f = NC_FILL_FLOAT; memcpy(out, &f, 4); } else { double d = NC_FILL_DOUBLE; memcpy(out, &d, 8); } }
    else if (kind == 0) {
        if (bits == 8) { signed char x = NC_FILL_BYTE; memcpy(out, &x, 1); }
        else if (bits == 16) { short x = NC_FILL_SHORT; memcpy(out, &x, 2); }
        else if (bits == 32) { int x = NC_FILL_INT; memcpy(out, &x, 4); }
        else { long long x = NC_FILL_INT64; memcpy(out, &x, 8); }
    } else {
        if (bits == 8) { unsigned char x = NC_FILL_UBYTE; memcpy(out, &x, 1); }
        else if (bits == 16) { unsigned short x = NC_FILL_USHORT; memcpy(out, &x, 2); }
        else if (bits == 32) { unsigned int x = NC_FILL_UINT; memcpy(out, &x, 4); }
        else { unsigned long long x = NC_FILL_UINT64; memcpy(out, &x, 8); }
    }
}

static int same_value(const unsigned char *a, const unsigned char *b, int kind, int bits) {
    if (kind == 2) {   /* NaN == NaN for the purpose of "converted exactly" */
        if (bits == 32) { float x, y; memcpy(&x, a, 4); memcpy(&y, b, 4); if (x != x && y != y) return 1; }
        else { double x, y; memcpy(&x, a, 8); memcpy(&y, b, 8); if (x != x && y != y) return 1; }
    }
    return memcmp(a, b, bits / 8) == 0;
}

#define XSZ (XB / 8)
#define ISZ (IB / 8)

VH_MAIN {
    VH_INPUTS(in);
    int cdf_ver = in.cdf5 ? 5 : 2;
    int err;
    /* classic-format exemption: NC_BYTE <-> unsigned char is a plain bit copy in CDF-1/2 */
    int exempt = (XK == 0 && XB == 8 && IK == 1 && IB == 8 && cdf_ver < 5);
#ifdef DIR_PUT
    IC buf[N];
    unsigned char xbuf[N * XSZ + 8];
    unsigned char guard = 0x5a;
    for (int k = 0; k < N; k++) memcpy(&buf[k], in.src[k], ISZ);
    memset(xbuf, guard, sizeof xbuf);
    /* every caller in the library (ncmpio_pack_xbuf, ncmpio_put_att) passes a non-NULL fill pointer */
    void *fillp = (void *)in.fill;
#ifdef X_IS_BYTE
    err = XFN(cdf_ver, xbuf, buf, N, IMPI, fillp);
#else
    err = XFN(xbuf, buf, N, IMPI, fillp);
#endif
    int any_must = 0, any_silent = 0;
    for (int k = 0; k < N; k++) {
        unsigned char expn[8], fillx[8], filln[8];
        val v = load_native(in.src[k], IK, IB);
        int cls = exempt ? 0 : classify(v, XK, XB, expn);
#if defined(KF_EXCLUDE_C09_nan_to_int) && IK == 2 && XK != 2
        ASSUME(v.d == v.d);     /* listed known finding: NaN source into an integer destination */
#endif
#if defined(KF_ONLY_C09_nan_to_int) && IK == 2 && XK != 2
        ASSUME(v.d != v.d || k > 0);
#endif
#if defined(KF_EXCLUDE_C09_pow2_64bit_bound) && IK == 2 && XK != 2 && XB == 64
        ASSUME(v.d != (XK == 0 ? 0x1p63 : 0x1p64));   /* listed known finding: source exactly MAX+1 of a 64-bit integer destination */
#endif
#if defined(KF_ONLY_C09_pow2_64bit_bound) && IK == 2 && XK != 2 && XB == 64
        ASSUME(v.d == (XK == 0 ? 0x1p63 : 0x1p64) || k > 0);
#endif
        if (exempt) { memset(expn, 0, 8); expn[0] = in.src[k][0]; }
        memcpy(filln, in.fill, 8);
        bswap(fillx, filln, XSZ);
        unsigned char *got = xbuf + k * XSZ;
        unsigned char gotn[8]; bswap(gotn, got, XSZ);
        int is_exact = same_value(gotn, expn, XK, XB);   /* gotn is the byte-reversed file image: big-endian is implied */
        int is_fill = memcmp(got, fillx, XSZ) == 0;
        if (cls == 0) ASSERT(is_exact, "put: representable value stored exactly (big-endian image)");
#ifdef VH_ERANGE_FILL
        if (cls == 1) ASSERT(is_fill, "put: out-of-range element receives the variable's fill value");
        if (cls == 2) ASSERT(is_exact || is_fill, "put: boundary-zone element is either exact or fill");
#endif
        if (cls == 1) any_must = 1;
        if (cls == 2) any_silent = 1;
        COVER(cls == 0 && k == N - 1, "put representable");
#ifdef CAN_ERANGE
        COVER(cls == 1 && k == 0, "put out of range, later element still converted");
#endif
    }
    for (int k = N * XSZ; k < N * XSZ + 8; k++) ASSERT(xbuf[k] == guard, "put: nothing written past the N-th element");
    if (any_must) ASSERT(err == NC_ERANGE, "put: NC_ERANGE returned when an element is not representable");
    if (!any_must && !any_silent) ASSERT(err == NC_NOERR, "put: no error when every element is representable");
    ASSERT(err == NC_NOERR || err == NC_ERANGE, "put: only NC_ERANGE may be reported");
#else /* DIR_GET */
    unsigned char xbuf[N * XSZ];
    IC ibuf[N + 1];
    for (int k = 0; k < N; k++) memcpy(xbuf + k * XSZ, in.src[k], XSZ);
    memset(ibuf, 0x5a, sizeof ibuf);
#ifdef X_IS_BYTE
    err = XFN(cdf_ver, xbuf, ibuf, N, IMPI);
#else
    err = XFN(xbuf, ibuf, N, IMPI);
#endif
    int any_must = 0, any_silent = 0;
    for (int k = 0; k < N; k++) {
        unsigned char srcn[8], expn[8], filln[8], filln2[8], gotn[8];
        memset(srcn, 0, 8); bswap(srcn, in.src[k], XSZ);
        val v = load_native(srcn, XK, XB);
        int cls = exempt ? 0 : classify(v, IK, IB, expn);
#if defined(KF_EXCLUDE_C09_nan_to_int) && XK == 2 && IK != 2
        ASSUME(v.d == v.d);     /* listed known finding: NaN source into an integer destination */
#endif
#if defined(KF_ONLY_C09_nan_to_int) && XK == 2 && IK != 2
        ASSUME(v.d != v.d || k > 0);
#endif
#if defined(KF_EXCLUDE_C09_pow2_64bit_bound) && XK == 2 && IK != 2 && IB == 64
        ASSUME(v.d != (IK == 0 ? 0x1p63 : 0x1p64));   /* listed known finding: source exactly MAX+1 of a 64-bit integer destination */
#endif
#if defined(KF_ONLY_C09_pow2_64bit_bound) && XK == 2 && IK != 2 && IB == 64
        ASSUME(v.d == (IK == 0 ? 0x1p63 : 0x1p64) || k > 0);
#endif
        if (exempt) { memset(expn, 0, 8); expn[0] = in.src[k][0]; }
        default_fill(IK, IB, filln);
        memcpy(filln2, filln, 8);
#ifdef I_IS_LONG
        { long x = NC_FILL_INT; memcpy(filln2, &x, 8); }   /* the library documents NC_FILL_INT for C long: accept either */
#endif
        memset(gotn, 0, 8); memcpy(gotn, &ibuf[k], ISZ);
        int is_exact = same_value(gotn, expn, IK, IB);
        int is_fill = memcmp(gotn, filln, ISZ) == 0 || memcmp(gotn, filln2, ISZ) == 0;
        if (cls == 0) ASSERT(is_exact, "get: representable value returned exactly");
#ifdef VH_ERANGE_FILL
        if (cls == 1) ASSERT(is_fill, "get: out-of-range element receives the memory type's default fill value");
        if (cls == 2) ASSERT(is_exact || is_fill, "get: boundary-zone element is either exact or fill");
#endif
        if (cls == 1) any_must = 1;
        if (cls == 2) any_silent = 1;
        COVER(cls == 0 && k == N - 1, "get representable");
#ifdef CAN_ERANGE
        COVER(cls == 1 && k == 0, "get out of range, later element still converted");
#endif
    }
    { unsigned char g[sizeof(IC)]; memset(g, 0x5a, sizeof g); ASSERT(memcmp(&ibuf[N], g, sizeof g) == 0, "get: nothing written past the N-th element"); }
    if (any_must) ASSERT(err == NC_ERANGE, "get: NC_ERANGE returned when an element is not representable");
    if (!any_must && !any_silent) ASSERT(err == NC_NOERR, "get: no error when every element is representable");
    ASSERT(err == NC_NOERR || err == NC_ERANGE, "get: only NC_ERANGE may be reported");
#endif
    WITNESS_END();
    VH_RETURN;
}
