/* C10 (intra-node aggregation offsets) -- flatten_subarray (static, ncmpio_intra_node.c, textual inclusion): the
 * offset/length pairs a rank hands to its aggregator must denote the same file bytes as the default path's file type
 * (reference: row-major offsets of the selected elements, C01.d), so that enabling the performance-only hint
 * nc_num_aggrs_per_node cannot change where data lands.
 * 2-D fixed-size variable, element size ELSZ and inner dimension SHAPE1 concrete, counts C0 x C1 concrete per job,
 * start/stride and the variable's begin offset symbolic.
 */
#include "vh.h"
#include "mpi_model.h"
#include <pnetcdf.h>
#include "u/ncmpio_intra_node.c"
struct inputs { long long start[2], stride[2], begin; };
VH_MAIN {
    VH_INPUTS(in);
    MPI_Offset start[2], count[2] = { C0, C1 }, stride[2], dimlen[2] = { 100000, SHAPE1 };
    for (int i = 0; i < 2; i++) { ASSUME(in.start[i] >= 0 && in.start[i] < (1LL << 20) && in.stride[i] >= 1 && in.stride[i] < (1LL << 20)); start[i] = in.start[i]; stride[i] = in.stride[i]; }
    ASSUME(in.begin >= 0 && in.begin < (1LL << 40));
    MPI_Aint npairs = -1, offsets[C0 * C1 + 1]; int lengths[C0 * C1 + 1];
    int err = flatten_subarray(2, ELSZ, in.begin, dimlen, start, count, stride, &npairs, offsets, lengths);
    ASSERT(err == NC_NOERR, "flatten succeeds");
    int merged = (in.stride[1] == 1);
    ASSERT(npairs == (merged ? C0 : C0 * C1), "number of offset-length pairs");
    int b = 0;
    for (long long k0 = 0; k0 < C0; k0++) for (long long k1 = 0; k1 < C1; k1++) {
        if (merged && k1 > 0) continue;
        /* written in the distributed form (start*unit + k*(stride*unit)) so that the solver only has additions to relate */
        long long d = in.begin + in.start[0] * ((long long)SHAPE1 * ELSZ) + k0 * (in.stride[0] * ((long long)SHAPE1 * ELSZ)) + in.start[1] * ELSZ + k1 * (in.stride[1] * ELSZ);
        ASSERT(offsets[b] == d, "aggregation path: pair offsets are the reference file offsets of the selected elements, in row-major order");
        ASSERT(lengths[b] == (merged ? C1 * ELSZ : ELSZ), "aggregation path: pair length is one element or the merged run");
        b++;
    }
    COVER(!merged && in.stride[0] > 1, "strided in both dimensions");
    COVER(merged, "contiguous last dimension");
    WITNESS_END();
    VH_RETURN;
}
