"""C06 -- redefinition preserves existing data; abort is all-or-nothing."""
from vlib.runner import Job
from vlib.common import MPI, STUB_NOTE


def jobs(tier):
    out = []
    aligns = [(512, 4), (4, 4), (512, 512), (4, 1024)]
    k = 0
    for nv in ([2, 3] if tier == "quick" else [2, 3, 4]):
        for kinds in range(1 << nv):
            for no in range(1, nv + 1):
                if tier == "quick" and nv == 3 and no == 3 and kinds % 2:
                    continue
                ha, ra = aligns[k % 4]
                k += 1
                recgrow = any((kinds >> i) & 1 for i in range(no)) and any((kinds >> i) & 1 for i in range(no, nv))
                ks = "".join("R" if (kinds >> i) & 1 else "F" for i in range(nv))
                out.append(Job(oid="C06.bc.enddef_moves.%s.old%d.h%d.r%d" % (ks, no, ha, ra), harness="C06/redef.c",
                               defines=["-DNV=%d" % nv, "-DKINDS=%d" % kinds, "-DREDEF_NO=%d" % no, "-DH_ALIGN=%d" % ha, "-DR_ALIGN=%d" % ra,
                                        "-DVT_MAX=4", "-DVT_NTYPES=2", "-DCOV_RECGROW=%d" % (1 if recgrow else 0)], stubs=MPI,
                               includes=["src/drivers/ncmpio/ncmpio_enddef.c"],
                               rename_defs={"src/drivers/ncmpio/ncmpio_enddef.c": ["move_file_block", "write_NC"]},
                               units=["src/drivers/common/error_mpi2nc.c"], unwind=10, timeout=1500,
                               desc="ncmpio__enddef re-entered after redef for the schema %s (F fixed, R record) whose first %d variables "
                                    "existed before: every old variable/record whose place changes is moved exactly once to its new place, "
                                    "tail-first (no move overwrites data still to be moved), nothing moves when nothing changed" % (ks, no),
                               functions=["ncmpio__enddef", "NC_begins", "move_record_vars", "move_fixed_vars", "ncmpio_NC_check_vlens"],
                               bounds="kinds %s; numrecs<=2; sizes, header size, free-space requests symbolic; alignments %d/%d" % (ks, ha, ra),
                               assumptions=["cut: move_file_block and write_NC recorders (byte movement: C06.a / C11), ncmpio_fill_vars, "
                                            "ncmpio_free_NC no-ops, header length symbolic",
                                            "the old layout satisfies the create post-condition of C03.c"]))
    for np_ in ([1, 2] if tier == "quick" else [1, 2, 3, 4]):
        out.append(Job(oid="C06.a.move_file_block.np%d" % np_, harness="C06/moveblock.c", defines=["-DNPROCS=%d" % np_, "-DVT_MAX=16", "-DVT_NTYPES=2"],
                       stubs=MPI, includes=["src/drivers/ncmpio/ncmpio_enddef.c"], units=["src/drivers/common/error_mpi2nc.c"], unwind=4, unwindset=["harness.%d:17" % k for k in range(24)],
                       object_bits=10, timeout=900,
                       desc="move_file_block for two adjacent ranks of %d: same rounds and collectives on both, chunks adjacent per round, "
                            "write = read shifted by (to-from) with the length read, rounds from the tail so that no destination overlaps a "
                            "later source" % np_,
                       functions=["move_file_block"], bounds="nprocs=%d, nbytes up to two rounds (<= nprocs*64MiB+5000), offsets < 2^40" % np_,
                       assumptions=STUB_NOTE))
    return out


MANIFEST = dict(
    text="The layout-level half of data preservation, decided by CBMC on the real enddef path (ncmpio__enddef, NC_begins, the move "
         "decision block, move_record_vars, move_fixed_vars): from ANY previous layout and ANY redefinition delta within the bound "
         "every old variable and every existing record whose place changes is the source of exactly one block move to its new "
         "place, moves are ordered so that none overwrites data still to be moved, and nothing moves when the layout is unchanged. "
         "The byte-level mover move_file_block is decided by a two-rank self-composition: adjacent chunks per round, write = read "
         "shifted by (to-from), rounds from the tail.",
    note="Bound: <=3 (4) variables, numrecs<=2, alignments from a fixed set. The byte-level move (move_file_block: per-rank chunking, "
         "rounds, read/write pairing) is checked for error propagation in C11 only; abort semantics (no write on abort of a redef, "
         "delete on abort of a create) and fill of added variables (C16) are not covered by these jobs.")
