"""C09 -- numeric type conversion and range checking are exact."""
from vlib.runner import Job

XT = {  # external type: (kind, bits)
    "NC_BYTE": (0, 8), "NC_UBYTE": (1, 8), "NC_SHORT": (0, 16), "NC_USHORT": (1, 16), "NC_INT": (0, 32),
    "NC_UINT": (1, 32), "NC_FLOAT": (2, 32), "NC_DOUBLE": (2, 64), "NC_INT64": (0, 64), "NC_UINT64": (1, 64)}
IT = {  # memory type: (C type, kind, bits, MPI handle)
    "schar": ("signed char", 0, 8, "MPI_SIGNED_CHAR"), "uchar": ("unsigned char", 1, 8, "MPI_UNSIGNED_CHAR"),
    "short": ("short", 0, 16, "MPI_SHORT"), "ushort": ("unsigned short", 1, 16, "MPI_UNSIGNED_SHORT"),
    "int": ("int", 0, 32, "MPI_INT"), "uint": ("unsigned int", 1, 32, "MPI_UNSIGNED"), "long": ("long", 0, 64, "MPI_LONG"),
    "float": ("float", 2, 32, "MPI_FLOAT"), "double": ("double", 2, 64, "MPI_DOUBLE"),
    "longlong": ("long long", 0, 64, "MPI_LONG_LONG_INT"), "ulonglong": ("unsigned long long", 1, 64, "MPI_UNSIGNED_LONG_LONG")}


def rng(k, b):
    if k == 0:
        return (-(1 << (b - 1)), (1 << (b - 1)) - 1)
    if k == 1:
        return (0, (1 << b) - 1)
    return (-float("inf"), float("inf")) if b == 64 else (-3.5e38, 3.5e38)


def can_erange(sk, sb, dk, db):
    """can a value of the source type be not representable in the destination?"""
    if dk == 2:
        return sk == 2 and sb > db
    if sk == 2:
        return True
    s, d = rng(sk, sb), rng(dk, db)
    return s[0] < d[0] or s[1] > d[1]


def jobs(tier, erange_fill=True):
    n = 2 if tier == "quick" else 3
    out = []
    for xn, (xk, xb) in XT.items():
        for iname, (ic, ik, ib, impi) in IT.items():
            same = (xk == ik and xb == ib)
            if same and not (xn == "NC_BYTE"):
                continue      # identical representation: no conversion entry point is used (byte swap only: C13.b)
            for d in ("put", "get"):
                sk, sb, dk, db = (ik, ib, xk, xb) if d == "put" else (xk, xb, ik, ib)
                defs = ["-DXFN=ncmpii_%sn_%s" % (d, xn), "-DXK=%d" % xk, "-DXB=%d" % xb, "-DIC=" + ic, "-DIK=%d" % ik, "-DIB=%d" % ib,
                        "-DIMPI=" + impi, "-DDIR_" + d.upper(), "-DN=%d" % n]
                if xn == "NC_BYTE":
                    defs.append("-DX_IS_BYTE")
                if iname == "long":
                    defs.append("-DI_IS_LONG")
                if can_erange(sk, sb, dk, db):
                    defs.append("-DCAN_ERANGE")
                if erange_fill:
                    defs.append("-DVH_ERANGE_FILL")
                fl = ["--float-overflow-check"] if False else []
                out.append(Job(
                    oid="C09.%s.%s<-%s" % (d, xn if d == "put" else iname, iname if d == "put" else xn),
                    harness="C09/conv.c", defines=defs,
                    units=["src/drivers/common/convert_swap.m4", "src/drivers/common/ncx.m4"],
                    unwind=10, unwindset=["pow2.0:66"], flags=fl, timeout=300,
                    desc="%s %d elements of memory type %s %s external %s: every bit pattern; exact value or NC_ERANGE+fill per "
                         "the arithmetic model; other elements of the call still converted; nothing written outside" %
                         (d, n, iname, "into" if d == "put" else "from", xn),
                    functions=["ncmpii_%sn_%s" % (d, xn), "ncmpix_%sn_%s_%s" % (d, xn, iname), "ncmpix_%s_%s_%s" % (d, xn, iname)],
                    bounds="nelems=%d, all 2^%d source bit patterns per element, fill value and format symbolic" % (n, sb),
                    findings=(["C09_nan_to_int"] + (["C09_pow2_64bit_bound"] if db == 64 else [])) if (sk == 2 and dk != 2) else [],
                ))
    return out


LEVEL = ("bounded model checking (CBMC/SAT) of the real conversion kernels against an independent arithmetic model; "
         "all bit patterns of every element, nelems <= bound")
ASSUMPTIONS = ["x86-64 little-endian host, IEEE-754 binary32/64 (CBMC's float model, round-to-nearest-even)",
               "ERANGE_FILL setting read from the repo's Makefile M4FLAGS; the rule of that mode is checked",
               "long double memory type and same-representation pairs (plain byte swap) are outside this harness"]

MANIFEST = dict(
    text="Bounded symbolic execution (CBMC, SAT back end) of the real conversion kernels ncmpii_putn/getn_NC_* -> ncmpix_* "
         "(regenerated from ncx.m4/convert_swap.m4 on every run) for all 10 numeric external x 11 memory types in both directions: "
         "every bit pattern of every element (nelems 2 quick / 3 thorough), symbolic fill value and format, compared against an "
         "independent arithmetic model of the statement. The solver covers all 2^64 values per element, which no test table can.",
    note="Holds for nelems <= bound; IEEE-754/x86-64; fill pointer non-NULL as every library caller passes; the statement's silent "
         "zones (strictly between MAX and MAX+1, +-Inf, values rounding into float range) accept either outcome. Known findings "
         "(NaN and exactly 2^63/2^64 into integer destinations) are excluded by assume and re-confirmed by the solver on every run. "
         "Attribute entry points share the same ncmpix_* kernels (pad variants in thorough).")
