"""C05 -- record count stays coherent across processes, memory and file header."""
from vlib.runner import Job
from vlib.common import MPI, STUB_NOTE, PUTVAR_UNITS, PUTVAR_FUNCS


def jobs(tier):
    out = []
    out.append(Job(oid="C05.a.write_numrecs", harness="C11/numrecs.c", defines=["-DCHECK_C05"], stubs=MPI,
                   units=["src/drivers/ncmpio/ncmpio_sync.c", "src/drivers/common/error_mpi2nc.c", "src/drivers/common/ncx.m4"],
                   unwind=17, timeout=600,
                   desc="ncmpio_write_numrecs: record count never decreases, becomes max(old,new) on the writing rank, and its big-endian "
                        "image (4 bytes CDF-1/2, 8 bytes CDF-5) lands at file offset 4; only the root writes unless collective header I/O",
                   functions=["ncmpio_write_numrecs", "ncmpix_put_uint32", "ncmpix_put_uint64"],
                   bounds="nprocs<=8, all flags/format/numrecs values", assumptions=STUB_NOTE))
    combos = [(1, 1, 0, 0), (1, 0, 0, 0), (1, 1, 1, 0), (2, 1, 0, 0), (1, 1, 0, 1), (2, 1, 0, 1)]
    if tier != "quick":
        combos += [(2, 1, 1, 0), (2, 0, 0, 0), (2, 0, 1, 0), (1, 0, 1, 0)]
    for nd, coll, st, np1 in combos:
        defs = ["-DND=%d" % nd, "-DCHECK_C05", "-DP_REC=1", "-DP_STRIDE=%d" % st, "-DP_COLL=%d" % coll, "-DVT_MAX=12", "-DALLOW_ZERO_COUNT"]
        if np1:
            defs.append("-DP_NPROCS1")
        out.append(Job(oid="C05.b.put_var.nd%d.%s.%s.%s" % (nd, "coll" if coll else "indep", "vars" if st else "vara", "np1" if np1 else "np2-4"),
                       harness="common/putvar.c", defines=defs, stubs=MPI, units=PUTVAR_UNITS, unwind=5, object_bits=10, timeout=1500, backend=["--external-sat-solver", "kissat"],
                       desc="blocking put to a record variable through the real write path: afterwards the record count is max(old, value "
                            "agreed by Allreduce) >= 1 + highest record written (collective), or max(old, own need) with the dirty bit set "
                            "exactly when it grew (independent); a request without elements needs no record; never decreases",
                       functions=PUTVAR_FUNCS, bounds="ndims=%d, count in 0..2 per dimension, start < 2^31, nprocs %s" % (nd, "1" if np1 else "2..4"),
                       assumptions=STUB_NOTE + ["request accepted by the dispatcher's checker (C15.a)"]))
    out.append(Job(oid="C05.b.put_var.fixedvar", harness="common/putvar.c",
                   defines=["-DND=1", "-DCHECK_C05", "-DP_REC=0", "-DP_STRIDE=0", "-DP_COLL=1", "-DVT_MAX=12"], stubs=MPI,
                   units=PUTVAR_UNITS, unwind=5, object_bits=10, timeout=1500, backend=["--external-sat-solver", "kissat"],
                   desc="a put to a fixed-size variable never changes the record count", functions=PUTVAR_FUNCS,
                   bounds="ndims=1, count<=2, nprocs 2..4", assumptions=STUB_NOTE))
    out.append(Job(oid="C05.d.sync_numrecs", harness="C05/syncnumrecs.c", defines=["-DVT_MAX=8", "-DVT_NTYPES=2"], stubs=MPI,
                   units=["src/drivers/ncmpio/ncmpio_sync.c", "src/drivers/common/error_mpi2nc.c", "src/drivers/common/ncx.m4"], unwind=9, timeout=600,
                   desc="ncmpio_sync_numrecs (behind sync_numrecs, sync, end_indep_data, redef, close): from independent mode one "
                        "Allreduce(MAX) of the local count, every rank ends with the agreed value, dirty bit cleared, root writes the header",
                   functions=["ncmpio_sync_numrecs", "ncmpio_write_numrecs"], bounds="nprocs<=4, every mode/flag state", assumptions=STUB_NOTE))
    from props.C16 import fillrec_jobs
    out += fillrec_jobs(tier, 'C05.e', inject=False)
    return out


MANIFEST = dict(
    text="Rank-local obligations under the Allreduce contract (result >= own contribution, same value on all ranks), decided by CBMC on "
         "the real code: ncmpio_write_numrecs (value written = big-endian max(old,new) at offset 4, never decreasing, root only) and "
         "the whole blocking write path ncmpio_put_var..MPI-IO for record variables, collective and independent, strided and "
         "subarray, incl. requests without elements, for every start/count/stride/shape/numrecs/rank/nprocs within the bound. "
         "Coherence across ranks follows because every rank assigns the reduced value.",
    note="Bound: 1-2 dimensions, count<=2 per dimension, start<2^31, nprocs<=4; real MPI_Allreduce agreement is the model's contract; "
         "the synchronisation point ncmpio_sync_numrecs (C05.d), record fill (C05.e) and the nonblocking wait (C02.c) are separate jobs; "
         "intra-node aggregation and vard paths are outside the claim.")
