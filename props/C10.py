"""C10 -- hints, process count and execution modes never change results."""
from vlib.runner import Job
from vlib.common import MPI, STUB_NOTE


def jobs(tier):
    out = []
    for c0, c1, elsz, s1 in ([(3, 2, 4, 5), (2, 3, 2, 7)] if tier == "quick" else [(3, 2, 4, 5), (2, 3, 2, 7), (4, 2, 8, 3), (3, 3, 1, 9)]):
        out.append(Job(oid="C10.f.flatten_subarray.c%dx%d.el%d" % (c0, c1, elsz), harness="C10/flatsub.c",
                       defines=["-DC0=%d" % c0, "-DC1=%d" % c1, "-DELSZ=%d" % elsz, "-DSHAPE1=%d" % s1, "-DVT_MAX=4", "-DVT_NTYPES=2"],
                       stubs=MPI, includes=["src/drivers/ncmpio/ncmpio_intra_node.c"], units=["src/drivers/common/error_mpi2nc.c"],
                       unwind=c0 * c1 + 2, object_bits=10, timeout=300,
                       desc="intra-node aggregation: flatten_subarray's offset/length pairs for a %dx%d strided request equal the reference "
                            "file offsets of the default path (so the aggregation hint cannot move data)" % (c0, c1),
                       functions=["flatten_subarray"], bounds="2-D fixed-size variable, counts %dx%d, element size %d, start/stride < 2^20, "
                                                              "begin < 2^40 symbolic" % (c0, c1, elsz)))
    # layout independence of alignment hints = NC_begins obligations (record size, order, lengths independent of alignments)
    from props import C03 as _c03
    for j in _c03.jobs(tier):
        if "NC_begins" in j.oid and ("create" in j.oid):
            j.oid = j.oid.replace("C03.c.", "C10.b.")
            out.append(j)
    return out


MANIFEST = dict(
    text="Two places where a performance-only setting is consumed are decided by CBMC: (f) the intra-node aggregation path's "
         "flatten_subarray must produce exactly the reference file offsets the default path uses (2-safety against the C01.d "
         "reference), for every start/stride; (b) NC_begins for each alignment pair: order, lengths and record size do not depend "
         "on the alignment hints, only the begins move, each satisfying its own configuration's rules.",
    note="NOT covered: hint parsing (ncmpio_set_pnetcdf_hints: e.g. nc_header_read_chunk_size is parsed but never stored - observed, "
         "see DESIGN.md), the aggregation protocol itself (gather/sort/merge over point-to-point messages: not encodable within reach), "
         "flatten_req's record-dimension stride (reported by an independent reviewer, not decided here), safe mode, process count.")
