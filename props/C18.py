"""C18 -- format size limits are enforced and 64-bit offsets are addressed correctly."""
from vlib.runner import Job


def jobs(tier):
    out = []
    for nv in ([2, 3] if tier == "quick" else [2, 3, 4]):
        out.append(Job(oid="C18.a.check_vlens.nv%d" % nv, harness="C18/vlens.c", defines=["-DNV=%d" % nv],
                       units=["src/drivers/ncmpio/ncmpio_enddef.c"], unwind=nv + 2, timeout=1500,
                       desc="ncmpio_NC_check_vlens == the size-rule table of the specification for every mix and order of %d fixed/record "
                            "variables, element sizes 1/2/4/8, full 64-bit dimension lengths, CDF-1/2/5" % nv,
                       functions=["ncmpio_NC_check_vlens", "ncmpio_NC_check_vlen"],
                       bounds="<=%d variables, one sized dimension each (length full 64-bit symbolic)" % nv,
                       assumptions=["variables with several sized dimensions (product with a symbolic divisor) are thorough-tier only"]))
    return out


MANIFEST = dict(
    text="CBMC decides the real enddef size check (ncmpio_NC_check_vlens/check_vlen) against the rule table of the format "
         "specification for EVERY mix and order of fixed/record variables, element size and full 64-bit lengths - i.e. all values "
         "below, at and above 2^31-4, 2^32-4 and 2^63-4 at once - in all three formats.",
    note="Bound: <=3 (4) variables with one sized dimension each. Dimension-length limits at def_dim, the CDF-1 begin-offset limit in "
         "NC_begins and addressing of elements beyond 2^31/2^32 (offset arithmetic of the put/get path) are separate obligations "
         "where present (C03.c, C01.a).")
