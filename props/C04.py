"""C04 -- any specification-valid classic file is read back exactly."""
from vlib.runner import Job
from vlib.common import MPI, STUB_NOTE

HG_UNITS = ["src/drivers/ncmpio/ncmpio_var.c", "src/drivers/ncmpio/ncmpio_attr.m4", "src/drivers/ncmpio/ncmpio_dim.c",
            "src/drivers/ncmpio/ncmpio_hash_func.c", "src/drivers/common/ncx.m4", "src/drivers/common/utils.c",
            "src/drivers/common/error_mpi2nc.c"]


def dec_jobs(tier, prefix="C04.a", valid_only=True):
    out = []
    chunks = [8, 12] if tier == "quick" else [8, 12, 16]
    decs = [("DEC_UINT", "uint", [])]
    for nl in ([1, 5] if tier == "quick" else [0, 1, 4, 5, 9]):
        decs.append(("DEC_NAME", "name%d" % nl, ["-DNMAX=9", "-DNLEN=%d" % nl]))
    for nl, nd in ([(1, 2), (4, 1)] if tier == "quick" else [(1, 2), (4, 1), (0, 0), (3, 2)]):
        decs.append(("DEC_VAR", "var.n%d.d%d" % (nl, nd), ["-DNLEN=%d" % nl, "-DNDIMS=%d" % nd] + (["-DVALID_ONLY"] if valid_only else [])))
    for ver in (1, 2, 5):
        for ch in chunks:
            for dec, nm, extra in decs:
                if dec == "DEC_UINT" and ver == 2:
                    continue
                if tier == "quick" and ver == 2 and dec != "DEC_VAR":
                    continue
                if tier == "quick" and dec == "DEC_NAME" and (ch != chunks[0] or (ver, nm) not in ((5, "name5"), (1, "name1"))):
                    continue
                if tier == "quick" and dec == "DEC_VAR" and (ver, nm) not in ((1, "var.n1.d2"), (2, "var.n4.d1"), (5, "var.n1.d2")):
                    continue
                for posk in (range(0, ch + 1, 4) if dec != "DEC_VAR" else [0]):
                    if tier == "quick" and dec == "DEC_NAME" and ver == 1 and posk != 4:
                        continue
                    if dec == "DEC_VAR" and ch != chunks[0]:
                        continue
                    ws = 0 if (posk // 4) % 2 == 0 else 4
                    out.append(Job(
                        oid="%s.%s.cdf%d.chunk%d.pos%d" % (prefix, nm, ver, ch, posk), harness="C04/decode.c",
                        defines=["-D" + dec, "-DVER=%d" % ver, "-DCHUNK=%d" % (ch if dec != "DEC_VAR" else 64), "-DIMG=%d" % (40 if dec != "DEC_VAR" else 64), "-DVT_MAX=12", "-DVT_NTYPES=2",
                                 "-DPOSK=%d" % posk, "-DWINSTART=%d" % ws] + extra,
                        stubs=MPI, includes=["src/drivers/ncmpio/ncmpio_header_get.c"], units=HG_UNITS,
                        rename_defs=({"src/drivers/ncmpio/ncmpio_header_get.c": ["hdr_get_NC_attrarray"]} if dec == "DEC_VAR" else {}),
                        unwind=14, unwindset=["memmove.0:%d" % (ch + 1), "memset.0:%d" % (ch + 1), "memcpy.0:%d" % (ch + 2)] if dec != "DEC_VAR" else ["harness.0:65", "harness.1:65", "harness.2:65", "harness.3:65", "window_mirrors_file.0:65", "window_mirrors_file.1:65"],
                        object_bits=10, timeout=900, weight=(4 if dec == "DEC_VAR" else 1),
                        desc="%s decoder(s) of the header reader (window %d bytes at file offset %d, read position %d, CDF-%d): decoded "
                             "value = grammar reading of the file bytes at the logical position, position advances by the encoded size, "
                             "window keeps mirroring the file (chunk-boundary independence)" % (nm, ch, ws, posk, ver),
                        functions=["hdr_fetch", "hdr_get_uint32", "hdr_get_uint64", "hdr_get_NC_name", "hdr_get_NC_var",
                                   "hdr_get_NC_attrarray", "hdr_get_NC_tag", "hdr_get_nc_type"],
                        bounds="file image 40 bytes (content and length symbolic), window of %d bytes at file offset %d, read position %d "
                               "(every 4-aligned position is a job)" % (ch, ws, posk),
                        assumptions=STUB_NOTE + ["MPI_File_read_at model: copies the image bytes available, short read at end of file",
                                                 "the window object has 8 unconstrained spare bytes behind its end (see harness)"]))
    return out


def jobs(tier):
    return dec_jobs(tier)


MANIFEST = dict(
    text="The header reader is decided decoder by decoder from an ARBITRARY read-window state (the monolithic reader on a symbolic file "
         "does not terminate in the solver): hdr_fetch + hdr_get_uint32/64, hdr_get_NC_name and hdr_get_NC_var (with tag/type/attrarray) "
         "decode exactly what the format grammar reads at the logical file position, advance by exactly the encoded size and keep "
         "the window consistent with the file for every window size in the bound and every placement of the chunk boundaries - the "
         "chunk-size independence that no test with the default 256 KiB chunk ever exercises.",
    note="Bound: 40-byte image, windows of 8/12 (16/36) bytes, names <= 6 (9) bytes, <= 2 dimension ids, no variable attributes. "
         "Dimension/attribute array decoders, compute_var_shape (vsize ignored), begin-offset checks and the Bcast to other ranks are "
         "not covered by these jobs.")
