"""C15 -- out-of-range requests are rejected and writes stay inside their target."""
from vlib.runner import Job


def jobs(tier):
    out = []
    common = dict(harness="C15/scs.c", includes=["src/dispatchers/var_getput.m4"],
                  functions=["check_start_count_stride", "check_EINVALCOORDS", "check_EEDGE"],
                  assumptions=["dimension lengths >= 0; numrecs <= 2^32-1 for CDF-1/2",
                               "driver->inq_dim stub returns the symbolic record count"],
                  findings=["C15_eedge_overflow"])
    box = 10
    for nd in ([1, 2] if tier == "quick" else [1, 2, 3]):
        out.append(Job(
            oid="C15.a.scs.box.nd%d" % nd, defines=["-DND=%d" % nd, "-DMODE_SMALL", "-DBOX=%d" % box, "-DCOVER_STRIDED=1"], unwind=nd + 1, timeout=1700,
            desc="check_start_count_stride accepts exactly the requests that fit and rejects with the documented code and "
                 "precedence; every (start,count,stride,shape,numrecs) in [-2^%d,2^%d) of a %d-D variable, fixed or record, "
                 "read/write, strict/relaxed, CDF-2/5, var1/vara/vars/varm" % (box, box, nd),
            bounds="ndims=%d; all values in [-2^%d,2^%d) symbolic" % (nd, box, box), **dict(common, findings=[])))
    consts = ["1", "2", "3", "(1LL<<31)", "(1LL<<32)", "(1LL<<62)", "INT64_MAX", "0", "(-1LL)", "INT64_MIN"]
    for nd in ([1, 2] if tier == "quick" else [1, 2, 3]):
        for k, c in enumerate(consts if (nd == 1 or tier != "quick") else [consts[0], consts[5]]):
            out.append(Job(
                oid="C15.a.scs.wide.nd%d.stride%d" % (nd, k), defines=["-DND=%d" % nd, "-DSTRIDE_LAST=" + c, "-DCOVER_STRIDED=%d" % (1 if (1 <= consts.index(c) <= 5 or (consts.index(c) == 6 and nd == 1)) else 0)], unwind=nd + 1,
                timeout=1700,
                desc="same obligation with start,count,shape,numrecs FULL 64-bit symbolic; stride of the last dimension = %s, "
                     "of the other dimensions = 1; %d-D" % (c, nd),
                bounds="ndims=%d; start,count,shape,numrecs full 64-bit; last stride %s" % (nd, c), **common))
    # C15.c: a zero-length request (some count == 0) changes neither data bytes nor the record count (shared with C05.b)
    from props import C05 as _c05
    for j in _c05.jobs(tier):
        if "put_var.nd2.coll.vara.np1" in j.oid:
            j.oid = j.oid.replace("C05.b.", "C15.c.zero_length.")
            out.append(j)
    return out


LEVEL = "bounded model checking of the real request checker over all 64-bit argument tuples"
ASSUMPTIONS = []

MANIFEST = dict(
    text="CBMC decides the real request checker check_start_count_stride/check_EINVALCOORDS/check_EEDGE (static functions of the "
         "m4-generated var_getput.c, included textually) against a 128-bit reference of 'the request fits the current shape' and the "
         "documented error precedence: (i) every (start,count,stride,shape,numrecs) tuple in [-2^10,2^10) fully symbolic, 1-2 (3) "
         "dimensions, fixed/record, read/write, strict/relaxed, CDF-2/5, var1/vara/vars/varm; (ii) start,count,shape,numrecs FULL "
         "64-bit with the last stride from {1,2,3,2^31,2^32,2^62,INT64_MAX,0,-1,INT64_MIN}. The 64-bit extremes (wrap-around) are "
         "exactly what the tests cannot enumerate.",
    note="Bounds: ndims<=2 quick/3 thorough; in the wide jobs the other dimensions have stride 1. Assumes dimension lengths >= 0 and "
         "numrecs <= 2^32-1 for CDF-1/2. Write-containment of accepted requests (filetype offsets) is covered under C01/C18 obligations "
         "when present; varn/nonblocking entry points call the same checker (call-order obligations are thorough-tier).")
