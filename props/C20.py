"""C20 -- offline utilities agree with the library and the format."""
from vlib.runner import Job


def jobs(tier):
    out = []
    combos = [(1, 0b1), (2, 0b10), (2, 0b11), (2, 0b01), (3, 0b100)] if tier == "quick" else [(1, 0b1), (2, 0b10), (2, 0b11), (2, 0b01), (3, 0b100), (3, 0b110), (3, 0b101), (3, 0b010), (2, 0b00)]
    for nv, kinds in combos:
        ks = "".join("R" if (kinds >> i) & 1 else "F" for i in range(nv))
        out.append(Job(oid="C20.o.ncoffsets_computeshapes." + ks, harness="C20/offsets_shapes.c", defines=["-DNV=%d" % nv, "-DKINDS=%d" % kinds],
                       includes=["src/utils/ncoffsets/ncoffsets.c"], unwind=nv + 3, object_bits=10, timeout=900, native_libs=[],
                       desc="ncoffsets' layout computation for the variable kinds %s: record size / record section / data section as the "
                            "format rule and the library's writer define them (single record variable packed without padding)" % ks,
                       functions=["ncmpii_NC_computeshapes", "ncmpii_NC_var_shape64"],
                       bounds="kinds %s; element type among byte/char/short/int/float/double, inner dimension length < 2^20 symbolic" % ks,
                       assumptions=["the tool's header parser (file I/O) is not part of this obligation: the schema is constructed directly"]))
    return out


MANIFEST = dict(
    text="Only the offset tool's layout kernel is claimed: CBMC executes ncoffsets' own ncmpii_NC_computeshapes/var_shape64 (stand-alone "
         "program, included textually) on schemas laid out the way the library lays them out (C03.c) and checks that the record size, "
         "record-section and data-section offsets the tool derives - and hence every record offset it prints - equal the format rule, "
         "including the single-record-variable packing exception that only shows for record sizes not divisible by 4.",
    note="NOT claimed: ncvalidator accepting library files / rejecting malformed headers, ncmpidiff/cdfdiff verdicts, ncmpidump output, "
         "ncmpigen regeneration - whole-program, I/O- and formatting-dominated utilities outside the reach of a unit harness here "
         "(reviewers noted: ncmpidiff has no NC_BYTE case, cdfdiff does not compare numrecs; not decided by this check).")
