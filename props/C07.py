"""C07 -- metadata and namespace operations behave like a sequential model."""
from vlib.runner import Job


def jobs(tier):
    out = []
    for hs in ([1, 2] if tier == "quick" else [1, 2, 4]):
        for op, opn in enumerate(("insert", "delete", "replace")):
            nid = 3 if tier == "quick" else 4
            out.append(Job(oid="C07.a.hash.%s.hs%d" % (opn, hs), harness="C07/hash.c",
                           defines=["-DHS=%d" % hs, "-DNID=%d" % nid, "-DOP_FIXED=%d" % op],
                           units=["src/drivers/ncmpio/ncmpio_hash_func.c"], unwind=nid + 3, unwindset=["strlen.0:4"], object_bits=10, timeout=900,
                           desc="name lookup table, one %s from any table satisfying H (ids in any order inside buckets, all hash "
                                "collisions for hash_size %d): H holds again for the reference model's names and ids, i.e. lookup by name "
                                "agrees with lookup by id" % (opn, hs),
                           functions=["ncmpio_hash_%s" % opn, "ncmpio_Bernstein_hash"],
                           bounds="<=%d objects, names of 1..2 bytes (all byte values), hash_size %d" % (nid, hs),
                           assumptions=["realloc keeps the block in place (list capacity sufficient in the harness)"]))
    out.append(Job(oid="C07.c.put_att.overwrite_rules", harness="C07/putatt.c",
                   units=["src/drivers/ncmpio/ncmpio_attr.m4", "src/drivers/ncmpio/ncmpio_hash_func.c", "src/drivers/ncmpio/ncmpio_fill.c",
                          "src/drivers/common/ncx.m4", "src/drivers/common/utils.c"],
                   unwind=5, unwindset=["strlen.0:3", "strcmp.0:3", "memcpy.0:25"], object_bits=10, timeout=900,
                   desc="ncmpio_put_att on a list holding attribute 'a' of any numeric type and 0..3 elements: in data mode an overwrite "
                        "is accepted only when the encoded size does not grow, a new attribute needs define mode, a refused call changes "
                        "nothing and writes nothing, an accepted data-mode change is written to the header before return",
                   functions=["ncmpio_put_att", "ncmpio_NC_findattr", "x_len_NC_attrV", "incr_NC_attrarray", "ncmpio_new_NC_attr"],
                   bounds="old/new type any of the format's numeric types, 0..3 elements, names 'a'/'c'",
                   assumptions=["name normalisation cut to identity (ASCII names)", "ncmpio_write_header cut to a call recorder"]))
    return out


MANIFEST = dict(
    text="Inductive step on the name lookup tables (real ncmpio_hash_insert/delete/replace with the real Bernstein hash): from ANY table "
         "satisfying the representation invariant - ids in any order inside a bucket, every collision pattern - one operation "
         "re-establishes the invariant for the names and ids a sequential reference model predicts (delete renumbers the ids above "
         "the deleted one). This is what makes 'lookup by name agrees with lookup by id' hold after every history; tests only "
         "sample a few insertion orders.",
    note="Bound: <=3 (4) objects, 1-2 byte names, hash_size 1/2 (4). Covers the table surgery shared by dimensions, variables and "
         "attributes; the attribute/dimension list surgery (del_att, rename_att, copy_att), name normalisation (utf8proc) and the "
         "data-mode header rewrite are not covered by these jobs.")
