"""C07 -- metadata and namespace operations behave like a sequential model."""
from vlib.runner import Job


def jobs(tier):
    out = []
    for hs in ([1, 2] if tier == "quick" else [1, 2, 4]):
        for op, opn in enumerate(("insert", "delete", "replace")):
            nid = 3 if tier == "quick" else 4
            out.append(Job(oid="C07.a.hash.%s.hs%d" % (opn, hs), harness="C07/hash.c",
                           defines=["-DHS=%d" % hs, "-DNID=%d" % nid, "-DOP_FIXED=%d" % op],
                           units=["src/drivers/ncmpio/ncmpio_hash_func.c"], unwind=nid + 3, unwindset=["strlen.0:4"], object_bits=10, timeout=900,
                           desc="name lookup table, one %s from any table satisfying H (ids in any order inside buckets, all hash "
                                "collisions for hash_size %d): H holds again for the reference model's names and ids, i.e. lookup by name "
                                "agrees with lookup by id" % (opn, hs),
                           functions=["ncmpio_hash_%s" % opn, "ncmpio_Bernstein_hash"],
                           bounds="<=%d objects, names of 1..2 bytes (all byte values), hash_size %d" % (nid, hs),
                           assumptions=["realloc keeps the block in place (list capacity sufficient in the harness)"]))
    return out


MANIFEST = dict(
    text="Inductive step on the name lookup tables (real ncmpio_hash_insert/delete/replace with the real Bernstein hash): from ANY table "
         "satisfying the representation invariant - ids in any order inside a bucket, every collision pattern - one operation "
         "re-establishes the invariant for the names and ids a sequential reference model predicts (delete renumbers the ids above "
         "the deleted one). This is what makes 'lookup by name agrees with lookup by id' hold after every history; tests only "
         "sample a few insertion orders.",
    note="Bound: <=3 (4) objects, 1-2 byte names, hash_size 1/2 (4). Covers the table surgery shared by dimensions, variables and "
         "attributes; the attribute/dimension list surgery (del_att, rename_att, copy_att), name normalisation (utf8proc) and the "
         "data-mode header rewrite are not covered by these jobs.")
