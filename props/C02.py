"""C02 -- nonblocking request aggregation is equivalent to blocking execution."""
from vlib.runner import Job
from vlib.common import MPI, STUB_NOTE

WAIT_PATCH = {"src/drivers/ncmpio/ncmpio_wait.c": {
    "rename": ["wait_getput"],
    "append": """
int vh_wait_getput(NC *ncp, int num_reqs, NC_req *reqs, int rw_flag, int coll_indep, MPI_Offset newnumrecs);
static int wait_getput(NC *ncp, int num_reqs, NC_req *reqs, int rw_flag, int coll_indep, MPI_Offset newnumrecs)
{ return vh_wait_getput(ncp, num_reqs, reqs, rw_flag, coll_indep, newnumrecs); }
int vh_call_req_commit(NC *ncp, int n, int *ids, int *st, int ci) { return req_commit(ncp, n, ids, st, ci); }
int vh_call_extract_reqs(NC *ncp, int n, int *ids, int *st, int *a, int *b, NC_req **c, int *d, int *e, NC_req **f)
{ return extract_reqs(ncp, n, ids, st, a, b, c, d, e, f); }
"""}}


def jobs(tier):
    out = []
    units = ["src/drivers/common/error_mpi2nc.c"]
    shapes = [(3, (1, 2, 1), 0), (3, (2, 1, 2), 1), (2, (1, 2), 1), (2, (2, 1), 0), (1, (2,), 1), (1, (1,), 0)]
    if tier == "quick":
        shapes = shapes[:4]
    nreqs = [1, 2, 3] if tier == "quick" else [1, 2, 3, 4]
    for np_, nums, ng, nreq in [(a, b, c, n) for (a, b, c) in shapes for n in nreqs]:
        if nreq > np_ + ng + 1 or (nreq >= 4 and np_ >= 3):      # 3 put leads x 4 ids exceeds the 12 GB solver cap
            continue
        nums3 = tuple(nums) + (1,) * (3 - len(nums))
        sdef = ["-DNP=%d" % np_, "-DNG=%d" % ng, "-DPN0=%d" % nums3[0], "-DPN1=%d" % nums3[1], "-DPN2=%d" % nums3[2], "-DGN0=1",
                "-DVT_MAX=8", "-DVT_NTYPES=2", "-DDBG_NREQ=%d" % nreq]
        tag = "p%s.g%d.n%d" % ("".join(map(str, nums)), ng, nreq)
        out.append(Job(oid="C02.c.req_commit." + tag, harness="C02/queue.c", defines=["-DOP_COMMIT"] + sdef, stubs=MPI,
                       units=units, patched_units=WAIT_PATCH, unwind=7, object_bits=10, timeout=1500, backend=["--slice-formula"],
                       desc="req_commit (= wait / wait_all below the mode test) from any queue state of this shape satisfying Q: exactly "
                            "the sub-requests of the named requests reach the I/O layer, once each; the record count handed down covers "
                            "every named record put; un-named requests stay queued and consistent; named ids reset; in-place-swapped "
                            "buffers swapped back and attached-buffer slots released exactly for completed requests; I/O errors of "
                            "either batch returned",
                       functions=["req_commit", "extract_reqs", "abuf_coalesce"],
                       bounds="shape: %d put leads with %s sub-requests, %d get lead; id array of exactly %d entries (concrete per job), each id named at most once; "
                              "ids, flags, record marks, buffers, statuses, mode, nprocs<=4 symbolic" % (np_, nums, ng, nreq),
                       assumptions=STUB_NOTE + ["cut: wait_getput (I/O layer) replaced by a recorder with arbitrary result; ncmpio_unpack_xbuf no-op"],
                       findings=["C02_shortcut_count_match", "C02_commit_prefix_scan", "C11_commit_err_overwrite", "C08_waitall_peer_error"]))
        out.append(Job(oid="C02.d.cancel." + tag, harness="C02/queue.c", defines=["-DOP_CANCEL"] + sdef, stubs=MPI,
                       units=units, patched_units=WAIT_PATCH, unwind=7, object_bits=10, timeout=1500, backend=["--slice-formula"],
                       desc="ncmpio_cancel by id from any queue state of this shape satisfying Q: the named requests leave the queues, "
                            "everything else stays pending and consistent (sub-request offsets re-tiled), buffers swapped back / abuf "
                            "slots released exactly for the cancelled ones, unknown ids reported",
                       functions=["ncmpio_cancel", "abuf_coalesce"],
                       bounds="shape: %d put leads with %s sub-requests, %d get lead; id array of <=4 entries" % (np_, nums, ng),
                       assumptions=STUB_NOTE))
    return out


MANIFEST = dict(
    text="Inductive step on the queues of pending nonblocking requests: from ANY queue state satisfying the representation invariant "
         "and ANY request-id array (order, NC_REQ_NULL holes, unknown ids, statuses or not), the real req_commit/extract_reqs and "
         "ncmpio_cancel are executed by CBMC with the I/O layer cut out; obligations: exactly the named requests are completed (each "
         "sub-request reaches the I/O layer once), the rest stays pending and consistent, ids reset, record count covers every named "
         "record put, buffers/attached-buffer slots handled exactly for completed requests, errors returned. Partitions of the "
         "pending set into successive waits of any length are covered by induction.",
    note="Bound: <=3 put + <=1 get lead requests with 1..2 sub-requests, id array <=4 with each id at most once. The aggregation of the "
         "extracted requests into MPI-IO calls (wait_getput/req_aggregation: sorting, merging, filetype construction) and the posting "
         "side (igetput/varn) are NOT covered by these jobs. Known findings are excluded by assume and re-confirmed each run.")
