"""C12 -- burst-buffer driver is transparent to the application."""
from vlib.runner import Job
from vlib.common import MPI

BB = ["-DENABLE_BURST_BUFFER"]


def jobs(tier):
    out = []
    for num in ([2] if tier == "quick" else [1, 2, 3]):
        out.append(Job(oid="C12.a.log_put_varn.num%d" % num, harness="C12/logput.c", defines=["-DNUM=%d" % num, "-DVT_MAX=4", "-DVT_NTYPES=2"], extra_cppflags=BB, stubs=MPI,
                       units=["src/drivers/ncbbio/ncbbio_log_put.c", "src/drivers/ncbbio/ncbbio_mem.c"], unwind=num + 3, object_bits=10,
                       timeout=900,
                       desc="ncbbio_log_put_varn from any log state: the appended entry encodes the request exactly, data precedes the entry "
                            "and the entry precedes the entry count in the logs, and the bookkeeping the flush relies on holds "
                            "(datalogsize, num_entries, maxentrysize >= every entry, recdimsize >= every staged record)",
                       functions=["ncbbio_log_put_varn", "ncbbio_log_buffer_alloc", "ncbbio_log_sizearray_append", "ncbbio_metaidx_add"],
                       bounds="%d sub-requests on a 1-D int variable (fixed or record), count 0..64 each, log sizes < 2^40" % num,
                       assumptions=["sources compiled with -DENABLE_BURST_BUFFER (not part of the default build)",
                                    "cut: PNC_check_id and the shared-file layer are recorders",
                                    "native replays use a scratch build of the library with -DENABLE_BURST_BUFFER"]))
    return out


MANIFEST = dict(
    text="The burst-buffer driver is decided at its log-append kernel: CBMC executes the real ncbbio_log_put_varn (+ the real metadata "
         "buffer helpers) from any log state and checks the entry encoding, the ordering of data/entry/count writes (what makes a "
         "crash-consistent log), and the bookkeeping invariants the flush relies on - in particular that maxentrysize bounds every "
         "entry, whose violation makes the flush loop forever for particular flush-buffer sizes.",
    note="Only this kernel of C12 is claimed. NOT covered: log replay (ncbbio_log_flush_core), flush triggers on get/wait/sync/redef/"
         "close, log removal, shared-file striping, equality of the destination file with the default driver's. The default build "
         "does not compile the driver; the harness compiles the units with -DENABLE_BURST_BUFFER.")
