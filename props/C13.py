"""C13 -- caller buffers are respected; attached-buffer accounting is exact."""
from vlib.runner import Job
from vlib.common import MPI, STUB_NOTE, PUTVAR_UNITS, PUTVAR_FUNCS
from props import C02 as _c02

WAIT_PATCH2 = {"src/drivers/ncmpio/ncmpio_wait.c": {
    "rename": ["wait_getput"],
    "append": _c02.WAIT_PATCH["src/drivers/ncmpio/ncmpio_wait.c"]["append"] +
              "int vh_call_abuf_coalesce(NC *ncp) { return abuf_coalesce(ncp); }\n"}}


def jobs(tier):
    out = []
    for coll in (1, 0):
        out.append(Job(oid="C13.a.put_var.buffer_unchanged.%s" % ("coll" if coll else "indep"), harness="common/putvar.c",
                       defines=["-DND=1", "-DCHECK_C13", "-DCHECK_C17", "-DP_REC=0", "-DP_STRIDE=0", "-DP_COLL=%d" % coll, "-DVT_MAX=12"],
                       stubs=MPI, units=PUTVAR_UNITS, unwind=5, unwindset=["memcmp.0:17"], object_bits=10, timeout=1500,
                       desc="blocking put through the real write path with the in-place byte-swap hint on/off/auto: the caller's buffer "
                            "holds its original contents when the call returns on every path; all MPI datatypes created are freed",
                       functions=PUTVAR_FUNCS, bounds="1-D NC_INT variable, count<=2, int buffer (swap needed, no conversion), nprocs 2..4",
                       assumptions=STUB_NOTE))
    for esel, esz in enumerate((1, 2, 4, 8)):
        out.append(Job(oid="C13.b.in_swapn.esize%d" % esz, harness="C13/swapn.c", defines=["-DESEL=%d" % esel, "-DNEL=3"],
                       units=["src/drivers/common/convert_swap.m4", "src/drivers/common/ncx.m4"], unwind=27, object_bits=12, timeout=600,
                       desc="ncmpii_in_swapn reverses the bytes of each of n elements of size %d in place, touches nothing else, and is "
                            "an involution" % esz, functions=["ncmpii_in_swapn"], bounds="n<=3 elements of %d bytes, all byte values" % esz))
    out.append(Job(oid="C13.d.abuf_accounting", harness="C13/abuf.c", units=["src/drivers/ncmpio/ncmpio_i_getput.m4"],
                   patched_units=WAIT_PATCH2, unwind=6, timeout=900,
                   desc="attached-buffer allocator: refusal exactly when remaining space < request; granted slices inside the buffer and "
                        "disjoint from slices in use; accounting invariant inductive over malloc/dealloc/coalesce; usage vs pending bytes",
                   functions=["ncmpio_abuf_malloc", "ncmpio_abuf_dealloc", "abuf_coalesce"],
                   bounds="<=3 table entries, sizes 1..64", assumptions=["occupy_table growth (realloc at 127 entries) not reached"],
                   findings=["C13_abuf_usage_holes"]))
    # C13.c: swap-back and abuf release on wait / cancel = the queue harness of C02
    for j in _c02.jobs(tier):
        if ".n1" in j.oid or ".n2" in j.oid:
            j.oid = j.oid.replace("C02.c.", "C13.c.wait.").replace("C02.d.", "C13.c.")
            j.findings = [f for f in j.findings]
            out.append(j)
    return out


MANIFEST = dict(
    text="CBMC on the real code: (a) the whole blocking put path leaves the caller's int buffer bit-identical for every in-place-swap "
         "setting and exit path; (b) ncmpii_in_swapn is an exact involution touching n*esize bytes; (c) wait/cancel from any queue "
         "state swap back and release attached-buffer slots exactly for the requests they complete (inductive step shared with C02); "
         "(d) the attached-buffer allocator's accounting invariant is inductive, refusal is exact, slices never overlap live ones.",
    note="Bounds: count<=2 elements on the put path (the 4096-byte auto threshold is exercised through the SWAP_ON/OFF flags, not by "
         "size), <=3 allocator entries, <=3 queued requests. Read-side 'modifies exactly the selected bytes' (unpack with derived "
         "buffer types) is not covered. Known finding: usage counts completed entries below a pending one.")
