"""C08 -- collective calls match on all ranks."""
from vlib.runner import Job
from vlib.common import MPI, STUB_NOTE, PUTVAR_UNITS, PUTVAR_FUNCS


def jobs(tier):
    out = []
    for nd in [1, 2]:
        for rec in (0, 1):
            for st in (0, 1):
                if tier == "quick" and nd == 2:
                    continue
                out.append(Job(oid="C08.a.put_var.valid_vs_zero.nd%d.%s.%s" % (nd, "rec" if rec else "fix", "vars" if st else "vara"),
                               harness="common/putvar.c",
                               defines=["-DND=%d" % nd, "-DCHECK_C08", "-DP_REC=%d" % rec, "-DP_STRIDE=%d" % st, "-DP_COLL=1", "-DVT_MAX=12"],
                               stubs=MPI, units=PUTVAR_UNITS, unwind=5, object_bits=10, timeout=1500, backend=["--external-sat-solver", "kissat"],
                               desc="self-composition of the blocking collective write path: a rank with a valid request and a rank "
                                    "whose request is zero-length/invalid (NC_REQ_ZERO) execute the same sequence of collective MPI "
                                    "calls on the same handles; %d-D NC_INT %s variable, %s, any rank, nprocs 2..4" %
                                    (nd, "record" if rec else "fixed-size", "strided" if st else "subarray"),
                               functions=PUTVAR_FUNCS, bounds="ndims=%d, count<=2 per dimension, nprocs<=4, offsets < 2^40" % nd,
                               assumptions=STUB_NOTE + ["the valid rank's request was accepted by the dispatcher's checker (C15.a)"],
                               findings=["C08_zero_req_recvar"] if rec else []))
    from props.C16 import fillrec_jobs
    out += fillrec_jobs(tier, 'C08.c') + fillrec_jobs(tier, 'C08.c', inject=True)
    return out


MANIFEST = dict(
    text="Two-run self-composition on the real write path (ncmpio_put_var down to the MPI-IO calls, all real units, MPI replaced by "
         "a recording model): the sequence of collective MPI calls (kind + communicator/file handle) made by a rank with a valid "
         "request is compared with the sequence made by a rank whose request is zero-length or was rejected by the dispatcher; "
         "CBMC decides it for every request, shape, rank and process count within the bound. A mismatch is a deadlock that only a "
         "particular assignment of arguments to ranks triggers.",
    note="Bound: 1-2 dimensional NC_INT variable, count<=2 per dimension, nprocs<=4. Real MPI matching semantics, intra-node "
         "aggregation, create/open are outside the claim. Known finding: collective put on a RECORD variable (valid rank ends with an "
         "Allreduce of the record count that the zero-length rank never makes) is excluded by assume and re-confirmed each run.")
