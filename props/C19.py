"""C19 -- memory safety on every program; malformed files fail cleanly."""
from props import C04 as _c04
from props import C18 as _c18


def jobs(tier):
    out = []
    # header decoders on ARBITRARY bytes (no validity assumption beyond the stated size bounds), incl. extreme count fields
    for j in _c04.dec_jobs(tier, prefix="C19.a", valid_only=False):
        if ".var." in j.oid or (".name" in j.oid and (".pos0" in j.oid or ".pos4" in j.oid) and (tier != "quick" or ".cdf5." in j.oid)) or (".uint." in j.oid and ".chunk8." in j.oid):
            j.desc = "memory safety + clean failure: " + j.desc
            out.append(j)
    # size computations on arbitrary decoded values: no overflow / division by zero in the enddef/open-time size checks
    for j in _c18.jobs(tier):
        j.oid = j.oid.replace("C18.a.", "C19.b.")
        out.append(j)
    return out


MANIFEST = dict(
    text="Every harness of every property runs with CBMC's pointer, bounds, signed-overflow, shift and division checks enabled on the "
         "real code, so each registered check also decides memory safety of the functions it encodes within its bound. This check "
         "adds the header decoders on ARBITRARY file bytes (arbitrary image content and length, truncated files, extreme count and "
         "length fields, dimension ids with the top bit set): no out-of-bounds access, the outcome is a netCDF error code or a decoded "
         "entry consistent with the bytes; and the size-rule computation on arbitrary 64-bit lengths.",
    note="Bound: as C04 (40/64-byte images, names <= 9 bytes, <= 2 dimension ids, no variable attributes) and C18. Misaligned typed "
         "accesses (attached-buffer slices, burst-buffer log) and whole-program sanitizer runs are not covered; forming a pointer "
         "beyond one-past-the-end in the decoders' `pos + n > end` tests is standard-level UB that the harness sidesteps with spare "
         "bytes and reports in DESIGN.md instead of alarming.")
