"""C01 -- blocking put/get round-trip fidelity for every access pattern (offset computation stage)."""
from vlib.runner import Job
from vlib.common import MPI, STUB_NOTE


def jobs(tier):
    out = []
    combos = [(1, 0, 4, 7, 24), (1, 1, 4, 7, 24), (2, 0, 4, 5, 40), (2, 1, 4, 5, 40), (1, 1, 2, 3, 6)]
    if tier != "quick":
        combos += [(2, 1, 8, 3, 64), (2, 0, 1, 9, 12), (1, 1, 8, 1, 20)]
    for nd, rec, elsz, shape1, recsize in combos:
        cmax = 2 if tier == "quick" else 3
        out.append(Job(oid="C01.d.stride_flatten.nd%d.%s.el%d" % (nd, "rec" if rec else "fix", elsz), harness="C01/flatten.c",
                       defines=["-DND=%d" % nd, "-DIS_REC=%d" % rec, "-DELSZ=%d" % elsz, "-DSHAPE1=%d" % shape1, "-DRECSIZE=%d" % recsize,
                                "-DCMAX=%d" % cmax, "-DVT_MAX=4", "-DVT_NTYPES=2"], stubs=MPI,
                       includes=["src/drivers/ncmpio/ncmpio_filetype.c"], units=["src/drivers/common/error_mpi2nc.c"],
                       unwind=cmax * cmax + 2, object_bits=10, timeout=900,
                       desc="stride_flatten for a %d-D %s variable (element size %d): the blocks are exactly the reference offsets "
                            "sum (start_i+k_i*stride_i)*unit_i in row-major order, merged along a contiguous last dimension, increasing "
                            "and non-overlapping" % (nd, "record" if rec else "fixed-size", elsz),
                       functions=["stride_flatten"], bounds="count 1..%d per dimension, start/stride < 2^20 symbolic; element size, inner "
                                                            "dimension length, record size concrete per job" % cmax,
                       findings=["C01_flatten_1d_recvar"] if (nd == 1 and rec) else []))
    # NOTE: harness/C01/dtype.c (ncmpii_dtype_decode on captured derived types) is kept in the tree but NOT registered: the
    # recursive decoder with its per-combiner allocation does not terminate in the solver within the tier budget (see DESIGN.md).
    return out


MANIFEST = dict(
    text="One stage of the write/read path is decided here: the file offsets of a strided request. CBMC executes the real "
         "stride_flatten on symbolic start/count/stride and compares every (displacement, length) block with the row-major reference "
         "offsets of the selected elements (unit of the record dimension = record size), incl. merging of a contiguous last dimension "
         "and ordering/non-overlap. The other stages (buffer packing, conversion, file view, record count) are decided under C09, "
         "C13, C05, C08 on the same real path.",
    note="Bound: 1-2 dimensions, count <= 2 (3), concrete element/inner-dimension/record sizes per job. NOT covered: subarray path "
         "(filetype_create_vara), derived buffer datatypes (dtype_decode - the seeded change C01-resized-contig-flag is not detected), "
         "imap, varn, end-to-end byte comparison on a modelled file, close/reopen. Known finding: 1-D record variable with stride.")
