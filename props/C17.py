"""C17 -- file handles and library resources have a clean lifecycle."""
from vlib.runner import Job


def jobs(tier):
    out = []
    for nf in ([4] if tier == "quick" else [4, 9, 64]):
        out.append(Job(
            oid="C17.a.idtable.nf%d" % nf, harness="C17/idtable.c", defines=["-DNF=%d" % nf],
            includes=["src/dispatchers/file.c"], unwind=nf + 1, timeout=1200,
            desc="one step of PNC_check_id / new_id_PNCList / del_from_PNCList / ncmpi_inq_files_opened from an arbitrary table "
                 "state satisfying 'pnc_numfiles == number of open slots': bad ids (negative, huge, closed) give NC_EBADID and never "
                 "a NULL object; new id = lowest free slot; NC_ENFILE exactly when full; other slots untouched",
            functions=["PNC_check_id", "new_id_PNCList", "del_from_PNCList", "ncmpi_inq_files_opened"],
            bounds="table of NC_MAX_NFILES=%d slots (macro overridden for the harness; code generic in it), every occupancy "
                   "pattern, every int id" % nf,
            assumptions=["representation invariant pnc_numfiles == #non-NULL slots characterises reachable tables (it is "
                         "re-established by every operation: proved here as post-condition)"],
            findings=["C17_checkid_null"]))
    from props import C13 as _c13
    for j in _c13.jobs(tier):          # C17.c: every MPI datatype created on the put path is freed (shared with C13.a)
        if "C13.a." in j.oid:
            j.oid = j.oid.replace("C13.a.put_var.buffer_unchanged", "C17.c.put_var.datatype_balance")
            out.append(j)
    return out


LEVEL = "inductive step over the id table, bounded table size, CBMC"
ASSUMPTIONS = []

MANIFEST = dict(
    text="Inductive step over the file-id table of dispatchers/file.c (real static pnc_filelist/pnc_numfiles reached by textual "
         "inclusion, table size macro set to 4/9/64): from ANY table state satisfying the representation invariant, PNC_check_id on "
         "ANY int id returns NC_NOERR exactly for an open id and never a NULL object, new_id issues a free slot exactly when one "
         "exists (NC_ENFILE only when full), del/inq touch only their slot. Histories of any length are covered by induction.",
    note="Bound: table size 4 (quick) / up to 64 (thorough) instead of 1024 - the code is generic in NC_MAX_NFILES. Heap/MPI-object "
         "balance obligations (leak checks) are separate jobs of this property where present.")
