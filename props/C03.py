"""C03 -- files written conform to the classic CDF-1/2/5 format specification."""
from vlib.runner import Job
from vlib.common import MPI, STUB_NOTE
from props import C07 as _c07


def jobs(tier):
    out = []
    aligns = [(512, 4), (4, 4), (512, 512), (12, 1024), (4096, 8), (1024, 12)]
    combos = []
    k = 0
    for nv in ([2, 3] if tier == "quick" else [2, 3, 4]):
        for kinds in range(1 << nv):
            for no in ([-1, 1] if tier == "quick" else [-1, 0, 1, nv - 1]):
                if no >= nv:
                    continue
                combos.append((nv, kinds, no, aligns[k % (4 if tier == "quick" else 6)]))
                k += 1
    for nv, kinds, no, (ha, ra) in combos:
        ks = "".join("R" if (kinds >> i) & 1 else "F" for i in range(nv))
        out.append(Job(oid="C03.c.NC_begins.%s.%s.h%d.r%d" % (ks, "create" if no < 0 else "redef%d" % no, ha, ra), harness="C03/begins.c",
                       defines=["-DNV=%d" % nv, "-DKINDS=%d" % kinds, "-DREDEF_NO=%d" % no, "-DH_ALIGN=%d" % ha, "-DR_ALIGN=%d" % ra,
                                "-DVT_MAX=4", "-DVT_NTYPES=2"], stubs=MPI,
                       includes=["src/drivers/ncmpio/ncmpio_enddef.c"], units=["src/drivers/common/error_mpi2nc.c"],
                       unwind=nv + 2, timeout=1500,
                       desc="NC_begins for the variable kinds %s (F fixed, R record), %s: areas after the header, in definition order, "
                            "4-byte aligned, non-overlapping, fixed before record, header/record alignment %d/%d and free space "
                            "honoured, single record variable packing, nothing moves up in a redefinition, CDF-1 offset limit" %
                            (ks, "file creation" if no < 0 else "redefinition with the first %d variables pre-existing" % no, ha, ra),
                       functions=["NC_begins"], bounds="kinds %s; lengths < 2^35, header < 2^33, free-space requests < 2^33 symbolic; "
                                                       "alignments concrete per job" % ks,
                       assumptions=["ncmpio_hdr_len_NC cut (symbolic header size)", "redefinition: the old schema is a prefix of the "
                                    "new one with unchanged variable sizes (variables can only be appended)",
                                    "every variable has >= 1 element per record (dimension lengths are positive)"]))
    for j in _c07.jobs(tier):          # data-mode metadata updates never grow the header (shared with C07.c)
        if "put_att" in j.oid:
            j.oid = j.oid.replace("C07.c.", "C03.f.")
            out.append(j)
    return out


MANIFEST = dict(
    text="CBMC decides the real layout computation NC_begins (static function, textual inclusion) for every mix and order of "
         "fixed/record variables, symbolic sizes/header size/free-space requests, a set of alignment pairs, all formats, for file "
         "creation and for redefinition from any earlier layout: areas in definition order, aligned, non-overlapping, alignment and "
         "free space honoured, single-record-variable packing rule, monotone under redefinition, CDF-1 offset limit.",
    note="Only the layout rules of C03 are claimed by these jobs. The header byte encoder (hdr_put_NC vs the format grammar), the "
         "library's reports (inq_header_size etc.) and 'nothing of a clobbered file survives' are not covered yet; attribute overwrite in data mode never growing the "
         "header is decided by the shared put_att job (C03.f).")
