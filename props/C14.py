"""C14 -- API mode state machine and error precedence."""
from vlib.runner import Job
from vlib.common import MPI, STUB_NOTE


def jobs(tier):
    out = []
    ops = ["enddef", "_enddef", "redef", "begin_indep_data", "end_indep_data", "sync", "sync_numrecs", "wait", "wait_all"]
    for k, opn in enumerate(ops):
      out.append(Job(
        oid="C14.a.mode_automaton." + opn, harness="C14/modes.c", stubs=MPI, defines=["-DVT_MAX=8", "-DVT_NTYPES=2", "-DOP_FIXED=%d" % k], includes=["src/dispatchers/file.c"],
        units=["src/drivers/ncmpio/ncmpio_sync.c", "src/drivers/common/error_mpi2nc.c", "src/drivers/common/ncx.m4"],
        patched_units={
            "src/drivers/ncmpio/ncmpio_file_misc.c": {
                "rename": ["dup_NC"], "proto": {"dup_NC": "NC *vh_dup_NC(const NC *ref); static NC *dup_NC(const NC *ref);"},
                "append": "static NC *dup_NC(const NC *ref) { return vh_dup_NC(ref); }\n"},
            "src/drivers/ncmpio/ncmpio_wait.c": {
                "rename": ["req_commit"],
                "proto": {"req_commit": "int vh_req_commit(NC*, int, int*, int*, int); static int req_commit(NC *ncp, int num_reqs, int *req_ids, int *statuses, int coll_indep);"},
                "append": "static int req_commit(NC *ncp, int num_reqs, int *req_ids, int *statuses, int coll_indep) { return vh_req_commit(ncp, num_reqs, req_ids, statuses, coll_indep); }\n"},
        },
        unwind=5, object_bits=10, timeout=900,
        desc="one step of enddef/_enddef/redef/begin_indep_data/end_indep_data/sync/sync_numrecs/wait/wait_all from any mode state "
             "satisfying the dispatcher/driver coupling invariant: new state = reference automaton in BOTH layers, a call not permitted "
             "returns the documented error, changes no mode bit in either layer and writes nothing",
        functions=["ncmpi_enddef", "ncmpi__enddef", "ncmpi_redef", "ncmpi_begin_indep_data", "ncmpi_end_indep_data", "ncmpi_sync",
                   "ncmpi_sync_numrecs", "ncmpi_wait", "ncmpi_wait_all", "PNC_check_id", "ncmpio_redef", "ncmpio_begin_indep_data",
                   "ncmpio_end_indep_data", "ncmpio_sync", "ncmpio_sync_numrecs", "ncmpio_write_numrecs", "ncmpio_wait"],
        bounds="all mode states satisfying M; nprocs<=4; one call (histories by induction)",
        assumptions=STUB_NOTE + ["cut by contract: ncmpio__enddef (success clears DEF|CREATE and drops old; failure changes nothing), "
                                 "dup_NC (returns an object), req_commit (no mode change)",
                                 "M characterises the reachable mode states (it is re-established: proved as post-condition)"]))
    return out


MANIFEST = dict(
    text="Inductive step over the product of the dispatcher's and the driver's mode flags: from any state satisfying the coupling "
         "invariant, each mode-changing or mode-tested call (real dispatchers of file.c and the real ncmpio halves) yields the state "
         "of a reference automaton written from the statement in BOTH layers, a non-permitted call returns the documented error with "
         "no effect, a permitted one succeeds. CBMC covers every state x call x argument x driver outcome; sequences of any length "
         "follow by induction, where tests only walk a few paths. The request checker's error precedence is decided in C15.a.",
    note="Cut by contract: ncmpio__enddef, dup_NC, req_commit. create/open (base case) and attribute/dimension/variable definers' "
         "mode tests are separate obligations where present. Safe-mode Allreduce(MIN) may replace a rank's code by another rank's.")
