"""C16 -- fill-value semantics."""
from vlib.runner import Job
from vlib.common import MPI, STUB_NOTE

FILL_UNITS = ["src/drivers/ncmpio/ncmpio_sync.c", "src/drivers/ncmpio/ncmpio_attr.m4", "src/drivers/ncmpio/ncmpio_hash_func.c",
              "src/drivers/common/error_mpi2nc.c", "src/drivers/common/ncx.m4", "src/drivers/common/utils.c"]


def fillrec_jobs(tier, prefix="C16.b", inject=False):
    out = []
    for np_ in ([1, 2, 3] if tier == "quick" else [1, 2, 3, 4, 5, 8]):
      for r0, r1 in ([(0, 0), (1, 4), (4, 1)] if not inject else [(2, 2)]):
        if inject and np_ == 1:
            continue
        if np_ == 1 and r0 != r1:
            continue
        defs = ["-DNPROCS=%d" % np_, "-DVT_MAX=8", "-DVT_NTYPES=2", "-DRECNO0=%d" % r0, "-DRECNO1=%d" % r1] + (["-DINJECT"] if inject else [])
        out.append(Job(oid="%s.fill_var_rec.np%d.rec%d_%d%s" % (prefix, np_, r0, r1, ".inject" if inject else ""), harness="C16/fillrec.c", defines=defs,
                       stubs=MPI, includes=["src/drivers/ncmpio/ncmpio_fill.c"], units=FILL_UNITS, unwind=12,
                       unwindset=["strlen.0:12", "strcmp.0:12"], object_bits=10, timeout=400,
                       desc=("fill_var_rec for two adjacent ranks of %d: shares tile the record, record count agreed and stored on every "
                             "rank, same collective calls whatever record numbers the ranks pass" % np_) if not inject else
                            ("fill_var_rec on %d processes with an arbitrary MPI-IO failure on one rank: the failure is returned and the "
                             "failing rank still matches the others' collective calls" % np_),
                       functions=["fill_var_rec", "fill_var_buf", "ncmpio_write_numrecs", "ncmpio_NC_findattr"],
                       bounds="nprocs=%d, record numbers %d/%d (concrete), var_len<=6 elements of 1/2/4/8 bytes, numrecs < 2^20, offsets < 2^40" % (np_, r0, r1),
                       assumptions=STUB_NOTE + ["name normalisation cut to identity"],
                       findings=["C08_fillrec_early_return"] if inject else []))
    return out


def fillerup_jobs(tier, prefix="C16.c", inject=False):
    out = []
    # (nv, kinds bitmask (1 = record), pre-existing variables, nprocs, no-fill bitmask, existing records)
    combos = [(3, 0b110, 1, 2, 0b000, 2), (3, 0b101, 1, 2, 0b000, 2), (2, 0b10, 1, 2, 0b00, 1), (3, 0b100, 2, 3, 0b000, 2),
              (2, 0b01, 0, 2, 0b00, 0), (3, 0b010, 0, 1, 0b000, 0), (3, 0b110, 1, 2, 0b010, 2), (3, 0b110, 1, 2, 0b110, 1)]
    if tier != "quick":
        combos += [(3, 0b111, 1, 3, 0b000, 2), (3, 0b011, 2, 2, 0b000, 1), (3, 0b110, 2, 4, 0b000, 2), (2, 0b11, 1, 2, 0b00, 2),
                   (3, 0b110, 1, 2, 0b100, 2), (3, 0b101, 1, 3, 0b001, 2)]
    if inject:
        combos = combos[:2]
    for nv, kinds, no, np_, nofill, onr in combos:
        ks = "".join("R" if (kinds >> i) & 1 else "F" for i in range(nv))
        out.append(Job(oid="%s.fillerup_aggregate.%s.old%d.np%d.nofill%d.recs%d%s" % (prefix, ks, no, np_, nofill, onr, ".inject" if inject else ""), harness="C16/fillerup.c",
                       defines=["-DNV=%d" % nv, "-DKINDS=%d" % kinds, "-DNO=%d" % no, "-DNPROCS=%d" % np_, "-DNOFILL=%d" % nofill, "-DONUMRECS=%d" % onr, "-DVT_MAX=8", "-DVT_NTYPES=3"] +
                               (["-DINJECT"] if inject else []),
                       stubs=MPI, includes=["src/drivers/ncmpio/ncmpio_fill.c"], units=FILL_UNITS, unwind=12,
                       unwindset=["strlen.0:12", "strcmp.0:12"], object_bits=10, timeout=900,
                       desc="fillerup_aggregate for the schema %s with the first %d variables pre-existing, %d processes: exactly the new "
                            "fill-mode variables are filled, record variables in every EXISTING record at the NEW record stride, each rank "
                            "its share, blocks ordered and disjoint, byte count consistent%s" %
                            (ks, no, np_, "; a failed fill write is returned" if inject else ""),
                       functions=["fillerup_aggregate", "fill_var_buf"],
                       bounds="kinds %s, %d existing records, no-fill mask %d, <=4 elements per variable (record), nprocs=%d, rank symbolic" % (ks, onr, nofill, np_),
                       assumptions=STUB_NOTE + ["layout as produced by NC_begins (C03.c)"],
                       findings=["C11_fillerup_write_err_lost"] if inject else []))
    return out


def jobs(tier):
    return fillrec_jobs(tier) + fillerup_jobs(tier)


MANIFEST = dict(
    text="CBMC executes the real fill worker fill_var_rec (with fill_var_buf, attribute lookup and the record-count update real) for two "
         "adjacent ranks of the same collective call: the ranks' byte ranges tile the variable's record exactly (no gap, no overlap, "
         "inside the variable) for every length not divisible by the process count, the record count is agreed and identical on all "
         "ranks, and the collective call sequence does not depend on the record numbers passed. The enddef-time fill "
         "(fillerup_aggregate) is decided on the captured file-type constructor: exactly the new fill-mode variables, in every "
         "existing record at the new record stride, each rank its share.",
    note="Bound: nprocs 1-3 (quick) / up to 8, <=6 elements per record; fillerup_aggregate: <=3 variables, <=2 existing records, the "
         "captured MPI_Type_create_hindexed arguments are compared with the reference regions (new fill-mode variables only, "
         "existing records at the new record stride). set_fill/def_var_fill flag handling, _FillValue attribute rules and the "
         "actual bytes in the file are not covered.")
