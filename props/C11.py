"""C11 -- I/O failures are never silently dropped."""
from vlib.runner import Job

MPI = ["vh_rt.c", "mpi_model.c"]
STUB_NOTE = ["MPI-IO stubs return an arbitrary code at every call (MPI_Error_class = identity, i.e. any error class); "
             "a ghost flag records a failed transfer of a non-zero amount"]


def jobs(tier):
    out = []
    out.append(Job(oid="C11.numrecs.write_numrecs", harness="C11/numrecs.c", defines=["-DCHECK_C11"], stubs=MPI,
                   units=["src/drivers/ncmpio/ncmpio_sync.c", "src/drivers/common/error_mpi2nc.c", "src/drivers/common/ncx.m4"],
                   unwind=17, timeout=600,
                   desc="ncmpio_write_numrecs: an MPI-IO failure of any class at the record-count write is returned as an error",
                   functions=["ncmpio_write_numrecs", "ncmpii_error_mpi2nc"], bounds="nprocs<=8, all flags/format/numrecs values",
                   assumptions=STUB_NOTE, findings=["C11_numrecs_errclass"]))
    common = ["src/drivers/common/error_mpi2nc.c", "src/drivers/common/ncx.m4", "src/drivers/common/mem_alloc.c"]
    sites = [
        ("move_file_block", "SITE_MOVE", ["src/drivers/ncmpio/ncmpio_enddef.c"], [], ["move_file_block"], "C11_move_errclass", 4,
         "data movement during redefinition: a failed read or write of any class ends the move with an error"),
        ("write_NC", "SITE_WRITE_NC", ["src/drivers/ncmpio/ncmpio_enddef.c"], [], ["write_NC"], "C11_writeNC_errclass", 4,
         "header write at enddef: a failed write of any class is returned"),
        ("write_header", "SITE_WRITE_HEADER", ["src/drivers/ncmpio/ncmpio_header_put.c"], [], ["ncmpio_write_header"], None, 4,
         "header write in data mode (rename/put_att/...): a failed write of any class is returned"),
        ("read_write", "SITE_READ_WRITE", [], ["src/drivers/ncmpio/ncmpio_file_io.c"], ["ncmpio_read_write"], None, 2,
         "data read/write: a failed transfer of any class is returned"),
        ("file_sync", "SITE_FILE_SYNC", [], ["src/drivers/ncmpio/ncmpio_sync.c"], ["ncmpio_file_sync"], None, 2,
         "MPI_File_sync failure is returned"),
    ]
    expanded = []
    for t in sites:
        if t[1] == "SITE_MOVE":
            for np in ([1, 2] if tier == "quick" else [1, 2, 3, 4]):
                expanded.append((t[0] + ".np%d" % np, t[1], t[2], t[3], t[4], t[5], t[6], t[7], ["-DNPROCS=%d" % np]))
        else:
            expanded.append(t + ([],))
    for name, site, incs, units, fns, kf, unw, desc, xdefs in expanded:
        ren = {}
        if site == "SITE_WRITE_HEADER":
            ren = {"src/drivers/ncmpio/ncmpio_header_put.c": ["ncmpio_hdr_put_NC"]}
        out.append(Job(oid="C11.%s" % name, harness="C11/sites.c", defines=["-D" + site] + xdefs,
                       stubs=MPI, includes=incs, units=units + common, rename_defs=ren, unwind=unw, timeout=900,
                       desc=desc, functions=fns + ["ncmpii_error_mpi2nc"], bounds="nprocs<=4; every return code at every MPI-IO call",
                       assumptions=STUB_NOTE, findings=[kf] if kf else []))
    from vlib.common import PUTVAR_UNITS, PUTVAR_FUNCS
    for coll in (1, 0):
        out.append(Job(oid="C11.put_var.%s" % ("coll" if coll else "indep"), harness="common/putvar.c",
                       defines=["-DND=1", "-DCHECK_C11", "-DP_REC=1", "-DP_STRIDE=0", "-DP_COLL=%d" % coll, "-DVT_MAX=12"], stubs=MPI, units=PUTVAR_UNITS,
                       unwind=5, object_bits=10, timeout=1500,
                       desc="one level up: the whole blocking put path with an arbitrary MPI-IO failure at any of its calls returns an error",
                       functions=PUTVAR_FUNCS, bounds="1-D record variable, count<=2, nprocs 2..4", assumptions=STUB_NOTE))
    from props.C16 import fillrec_jobs
    out += fillrec_jobs(tier, 'C11.fill', inject=True)
    from props.C16 import fillerup_jobs
    out += fillerup_jobs(tier, 'C11.fill', inject=True)
    return out


LEVEL = "fault injection made symbolic: CBMC decides all return codes at all I/O call positions of the unit"
ASSUMPTIONS = []

MANIFEST = dict(
    text="Fault injection made symbolic: each library function that issues MPI-IO for an API call (ncmpio_write_numrecs, write_NC, "
         "ncmpio_write_header, move_file_block, ncmpio_read_write incl. the packing-buffer path, ncmpio_file_sync) is executed by "
         "CBMC with every MPI-IO stub returning an arbitrary code (= any error class) at every call position, several failures at "
         "once included; obligation: a failed transfer of a non-zero amount on this rank makes the function return != NC_NOERR.",
    note="nprocs<=4 (move_file_block: concrete 1,2 quick / 1-4 thorough, <=2 rounds); header encoder cut out (C03 covers it); "
         "failures of non-I/O MPI calls and of MPI_File_open/delete are outside the claim; what the caller of these functions does "
         "with the code is covered one level up only where a harness exists (C05/C08).")
