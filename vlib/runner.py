#!/usr/bin/env python3
"""
runner.py -- pipeline for bounded symbolic checking of PnetCDF's real code.

  /repo/**.m4 --m4 (flags parsed from the repo's Makefiles)--> scratch/gen/*.c
  unit sources --goto-cc--> scratch/obj/*.gb        (units linked unmodified)
  harness (+ textually included units) --goto-cc--> scratch/j/<job>/h.gb
  link -> goto-instrument (undefined callees => assert(false)) -> cbmc --json-ui
  verdicts -> (FAILURE) cbmc --trace -> input blob -> native gcc replay -> report
  witness twin (-DWITNESS): every COVER/WITNESS_END must be reachable; the
  solver's witness inputs are replayed natively against the same real code
  (translator validation: CBMC's and gcc's view of the code agree on the path).

Everything is rebuilt from /repo's working tree on every run; nothing under
/repo is written (make is never invoked there).
"""
import concurrent.futures as cf
import hashlib
import json
import os
import re
import resource
import shutil
import subprocess
import sys
import threading
import time
from dataclasses import dataclass, field

REPO = os.environ.get("VERIF_REPO", "/repo")
VERIF = os.path.dirname(os.path.dirname(os.path.abspath(__file__)))
MPI_INC = ["/usr/lib/x86_64-linux-gnu/openmpi/include",
           "/usr/lib/x86_64-linux-gnu/openmpi/include/openmpi"]
KNOWN_FILE = os.path.join(VERIF, "known_findings.txt")


# --------------------------------------------------------------------------
@dataclass
class Job:
    oid: str                       # obligation id, e.g. "C09.a.int<-double"
    harness: str                   # path relative to /verif/harness
    desc: str = ""                 # the obligation in words (goes to evidence samples)
    units: list = field(default_factory=list)      # repo-relative units linked unmodified
    includes: list = field(default_factory=list)   # repo-relative units the harness #include's as "u/<basename>.c"
    rename_defs: dict = field(default_factory=dict)  # {unit: [fn,..]}: definition of fn renamed to fn__real in the scratch copy
    defines: list = field(default_factory=list)
    stubs: list = field(default_factory=lambda: ["vh_rt.c"])
    unwind: int = 0
    unwindset: list = field(default_factory=list)
    flags: list = field(default_factory=list)      # extra cbmc flags
    backend: list = field(default_factory=list)    # e.g. ["--slice-formula"]
    object_bits: int = 0
    timeout: int = 600
    mem_gb: int = 12
    findings: list = field(default_factory=list)   # finding ids the harness can exclude via -DKF_EXCLUDE_<fid>
    functions: list = field(default_factory=list)  # real functions encoded (evidence)
    bounds: str = ""
    assumptions: list = field(default_factory=list)
    leak_check: bool = False
    extra_cppflags: list = field(default_factory=list)
    native_ok: bool = True         # False: no native replay possible for this harness (say why in assumptions)
    allow_undefined: list = field(default_factory=list)  # callees deliberately left without body (nondet return)
    native_libs: list = field(default_factory=list)
    weight: int = 1                # scheduling weight (memory-hungry jobs take several of the 16 slots)
    patched_units: dict = field(default_factory=dict)   # {unit: {"rename": [fn,..], "append": "C text"}}: own TU, static callees cut


def safe(s):
    return re.sub(r"[^A-Za-z0-9_.-]", "_", s)


# --------------------------------------------------------------------------
class Ctx:
    def __init__(self, prop, tier, seed, jobs_parallel=None):
        self.prop, self.tier, self.seed = prop, tier, seed
        self.scratch = os.path.join(VERIF, ".scratch", "%s-%s-%d" % (prop, tier, os.getpid()))
        shutil.rmtree(self.scratch, ignore_errors=True)
        for d in ("gen", "geninc", "obj", "j", "native"):
            os.makedirs(os.path.join(self.scratch, d))
        self.lock = threading.Lock()
        self.locks = {}
        self.par = jobs_parallel or int(os.environ.get("VERIF_JOBS", "0")) or min(16, os.cpu_count() or 4)
        self.mk_cache = {}
        self.kf_confirmed = set()
        self.slots = self.par
        self.cv = threading.Condition()
        self.t0 = time.time()
        self._gen_headers()

    def cleanup(self):
        if not os.environ.get("VERIF_KEEP"):
            shutil.rmtree(self.scratch, ignore_errors=True)

    def keylock(self, key):
        with self.lock:
            return self.locks.setdefault(key, threading.Lock())

    # ---- Makefile variables (parsed, make is never run in /repo) ----------
    def mkvars(self, d):
        if d in self.mk_cache:
            return self.mk_cache[d]
        v = {}
        p = os.path.join(REPO, d, "Makefile")
        if os.path.exists(p):
            txt = open(p, errors="replace").read().replace("\\\n", " ")
            for m in re.finditer(r"^([A-Za-z_][A-Za-z0-9_]*)\s*\+?=\s*(.*)$", txt, re.M):
                v.setdefault(m.group(1), m.group(2).strip())
        self.mk_cache[d] = v
        return v

    def mkexpand(self, d, s, depth=0):
        v = self.mkvars(d)

        def rep(m):
            n = m.group(1) or m.group(2)
            if n in ("top_srcdir", "top_builddir"):
                return REPO
            if n == "srcdir":
                return os.path.join(REPO, d)
            return self.mkexpand(d, v.get(n, ""), depth + 1) if depth < 8 else ""
        return re.sub(r"\$\((\w+)\)|\$\{(\w+)\}", rep, s)

    def m4flags(self, d):
        v = self.mkvars(d)
        if "M4FLAGS" in v:
            fl = self.mkexpand(d, v.get("AM_M4FLAGS", "") + " " + v["M4FLAGS"]).split()
        else:  # unconfigured tree: the defaults of configure.ac
            fl = ["-DPNETCDF", "-I%s/m4" % REPO, "-DERANGE_FILL"]
        return fl

    def cppflags(self, extra=()):
        return ["-DHAVE_CONFIG_H", "-I" + os.path.join(self.scratch, "geninc"),
                "-I" + REPO + "/src/include", "-I" + REPO + "/src/drivers/include",
                "-I" + REPO + "/src/drivers/ncmpio", "-I" + REPO + "/src/drivers/common",
                "-I" + REPO + "/src/dispatchers", "-I" + REPO + "/src/drivers/ncbbio"] + \
               ["-I" + i for i in MPI_INC] + \
               ["-I" + os.path.join(VERIF, "harness"), "-I" + os.path.join(VERIF, "stubs")] + list(extra)

    def _gen_headers(self):
        src = os.path.join(REPO, "src/drivers/include/ncx_h.m4")
        if os.path.exists(src):
            out = subprocess.run(["m4"] + self.m4flags("src/drivers/include") + [src], capture_output=True, text=True,
                                 cwd=os.path.dirname(src))
            if out.returncode != 0:
                raise RuntimeError("m4 failed on ncx_h.m4: " + out.stderr)
            open(os.path.join(self.scratch, "geninc", "ncx.h"), "w").write(out.stdout)

    # ---- source preparation ------------------------------------------------
    def gen_source(self, unit):
        """repo-relative unit (.c or .m4) -> path of a C file regenerated from the working tree"""
        if unit.startswith("/"):
            return unit
        src = os.path.join(REPO, unit)
        base, ext = os.path.splitext(unit)
        m4src = os.path.join(REPO, base + ".m4")
        if ext == ".m4" or (ext == ".c" and os.path.exists(m4src)):
            out = os.path.join(self.scratch, "gen", os.path.basename(base) + ".c")
            with self.keylock("gen:" + out):
                if not os.path.exists(out):
                    d = os.path.dirname(unit)
                    r = subprocess.run(["m4"] + self.m4flags(d) + [m4src], capture_output=True, text=True,
                                       cwd=os.path.dirname(m4src))
                    if r.returncode != 0:
                        raise RuntimeError("m4 failed on %s: %s" % (m4src, r.stderr))
                    tmp = out + ".tmp"
                    open(tmp, "w").write(r.stdout)
                    os.rename(tmp, out)
            return out
        if not os.path.exists(src):
            raise RuntimeError("unit not found: " + src)
        return src

    def unit_dir_flags(self, unit):
        return ["-I" + os.path.join(REPO, os.path.dirname(unit))] if not unit.startswith("/") else []

    def compile_unit(self, unit, extra=()):
        """goto-cc one unmodified unit, cached for this run"""
        key = hashlib.sha1((unit + " ".join(extra)).encode()).hexdigest()[:10]
        out = os.path.join(self.scratch, "obj", safe(os.path.basename(unit)) + "." + key + ".gb")
        with self.keylock("obj:" + out):
            if not os.path.exists(out):
                src = self.gen_source(unit)
                cmd = ["goto-cc", "-c", src, "-o", out + ".tmp"] + self.cppflags(extra) + self.unit_dir_flags(unit)
                r = subprocess.run(cmd, capture_output=True, text=True)
                if r.returncode != 0:
                    raise RuntimeError("goto-cc failed on %s:\n%s" % (unit, r.stderr[-3000:]))
                os.rename(out + ".tmp", out)
        return out

    def prepare_includes(self, job, jdir):
        udir = os.path.join(jdir, "u")
        os.makedirs(udir, exist_ok=True)
        pdir = os.path.join(jdir, "pu")
        os.makedirs(pdir, exist_ok=True)
        for unit, spec in job.patched_units.items():
            txt = open(self.gen_source(unit), errors="replace").read()
            for fn in spec.get("rename", []):
                proto = spec.get("proto", {}).get(fn, "")
                # PnetCDF style: return type on its own line, defined name starts the next line
                txt, n = re.subn(r"^([^\n]*\n)%s\(" % re.escape(fn),
                                 lambda m: (proto + "\n" if proto else "") + m.group(1) + fn + "__real(", txt, flags=re.M)
                if n == 0:
                    raise RuntimeError("patched_units: no definition of %s found in %s" % (fn, unit))
            txt += "\n/* ---- appended by the harness job (cut of static callees) ---- */\n" + spec.get("append", "")
            open(os.path.join(pdir, os.path.splitext(os.path.basename(unit))[0] + ".c"), "w").write(txt)
        for unit in job.includes:
            src = self.gen_source(unit)
            txt = open(src, errors="replace").read()
            for fn in job.rename_defs.get(unit, []):
                # PnetCDF style: the defined name starts its own line (return type on the line above)
                txt, n = re.subn(r"^%s\(" % re.escape(fn), fn + "__real(", txt, flags=re.M)
                if n == 0:
                    raise RuntimeError("rename_defs: no definition of %s found in %s" % (fn, unit))
            base = os.path.splitext(os.path.basename(unit))[0] + ".c"
            open(os.path.join(udir, base), "w").write(txt)

    # ---- native library for replays -----------------------------------------
    LIB_DIRS = ["src/dispatchers", "src/drivers/common", "src/drivers/ncmpio"]

    def native_lib(self, with_bb=False):
        tag = "bb" if with_bb else "std"
        lib = os.path.join(self.scratch, "native", "libpn_%s.a" % tag)
        with self.keylock("nlib:" + tag):
            if os.path.exists(lib):
                return lib
            units = []
            dirs = self.LIB_DIRS + (["src/drivers/ncbbio"] if with_bb else [])
            for d in dirs:
                names = set()
                for f in sorted(os.listdir(os.path.join(REPO, d))):
                    b, e = os.path.splitext(f)
                    if e in (".c", ".m4") and not b.endswith("_h"):
                        names.add(b)
                for b in sorted(names):
                    if b in ("ncmpio_subfile", "error_adios2nc"):
                        continue
                    units.append(os.path.join(d, b + ".c"))
            odir = os.path.join(self.scratch, "native", "o_" + tag)
            os.makedirs(odir, exist_ok=True)
            extra = ["-DENABLE_BURST_BUFFER"] if with_bb else []

            def cc(u):
                o = os.path.join(odir, os.path.basename(u)[:-2] + ".o")
                r = subprocess.run(["gcc", "-g", "-O0", "-w", "-c", self.gen_source(u), "-o", o] + self.cppflags(extra) +
                                   self.unit_dir_flags(u), capture_output=True, text=True)
                if r.returncode != 0:
                    raise RuntimeError("gcc failed on %s: %s" % (u, r.stderr[-2000:]))
                return o
            with cf.ThreadPoolExecutor(8) as ex:
                objs = list(ex.map(cc, units))
            subprocess.run(["ar", "rcs", lib] + objs, check=True)
            return lib


# --------------------------------------------------------------------------
def _limits(mem_gb):
    def f():
        resource.setrlimit(resource.RLIMIT_AS, (mem_gb << 30, mem_gb << 30))
        os.setsid()
    return f


def run_proc(cmd, timeout, mem_gb=12, cwd=None, env=None):
    t0 = time.time()
    p = subprocess.Popen(cmd, stdout=subprocess.PIPE, stderr=subprocess.PIPE, text=True, cwd=cwd, env=env,
                         preexec_fn=_limits(mem_gb))
    try:
        out, err = p.communicate(timeout=timeout)
        to = False
    except subprocess.TimeoutExpired:
        try:
            os.killpg(p.pid, 9)
        except Exception:
            p.kill()
        out, err = p.communicate()
        to = True
    ru = resource.getrusage(resource.RUSAGE_CHILDREN)
    return p.returncode, out, err, to, time.time() - t0


class JobResult:
    def __init__(self, job):
        self.job = job
        self.status = "?"          # pass | fail | error | inconclusive
        self.props = []            # [(name, status, desc, file, line)]
        self.failed = []           # failing property dicts
        self.witness_total = 0
        self.witness_reached = 0
        self.witness_native_ok = 0
        self.witness_samples = []
        self.solver_s = 0.0
        self.wall_s = 0.0
        self.vccs = 0
        self.sat_vars = 0
        self.sat_clauses = 0
        self.steps = 0
        self.msgs = []
        self.known = []            # finding ids confirmed still present
        self.replay_path = None
        self.replay_verdict = None
        self.notes = []
        self.n_queries = 0


def build_gb(ctx, job, mode, extra_defs=()):
    """returns path of the instrumented goto binary for job in mode main|witness"""
    jdir = os.path.join(ctx.scratch, "j", safe(job.oid))
    os.makedirs(jdir, exist_ok=True)
    with ctx.keylock("inc:" + jdir):
        if not os.path.exists(os.path.join(jdir, ".inc_done")):
            ctx.prepare_includes(job, jdir)
            open(os.path.join(jdir, ".inc_done"), "w").write("")
    tag = mode + ("" if not extra_defs else "." + hashlib.sha1(" ".join(extra_defs).encode()).hexdigest()[:6])
    defs = list(job.defines) + list(extra_defs) + (["-DWITNESS"] if mode == "witness" else [])
    cpp = ctx.cppflags(job.extra_cppflags) + ["-I" + jdir] + defs
    for u in job.includes:
        cpp += ctx.unit_dir_flags(u)
    hsrc = os.path.join(VERIF, "harness", job.harness)
    hgb = os.path.join(jdir, "h.%s.gb" % tag)
    r = subprocess.run(["goto-cc", "-c", hsrc, "-o", hgb] + cpp, capture_output=True, text=True)
    if r.returncode != 0:
        raise RuntimeError("goto-cc failed on harness %s:\n%s" % (job.harness, r.stderr[-4000:]))
    objs = [hgb]
    for s in job.stubs:
        sgb = os.path.join(jdir, "s.%s.%s.gb" % (safe(s), tag))
        r = subprocess.run(["goto-cc", "-c", os.path.join(VERIF, "stubs", s), "-o", sgb] + cpp, capture_output=True, text=True)
        if r.returncode != 0:
            raise RuntimeError("goto-cc failed on stub %s:\n%s" % (s, r.stderr[-4000:]))
        objs.append(sgb)
    for u in job.units:
        objs.append(ctx.compile_unit(u, tuple(job.extra_cppflags)))
    for u in job.patched_units:
        src = os.path.join(jdir, "pu", os.path.splitext(os.path.basename(u))[0] + ".c")
        pgb = os.path.join(jdir, "p.%s.%s.gb" % (safe(os.path.basename(u)), tag))
        r = subprocess.run(["goto-cc", "-c", src, "-o", pgb] + cpp + ctx.unit_dir_flags(u), capture_output=True, text=True)
        if r.returncode != 0:
            raise RuntimeError("goto-cc failed on patched unit %s:\n%s" % (u, r.stderr[-4000:]))
        objs.append(pgb)
    linked = os.path.join(jdir, "l.%s.gb" % tag)
    r = subprocess.run(["goto-cc", "-o", linked] + objs, capture_output=True, text=True)
    if r.returncode != 0:
        raise RuntimeError("goto-cc link failed for %s:\n%s" % (job.oid, r.stderr[-4000:]))
    return linked


STD_FLAGS = ["--no-malloc-may-fail", "--unwinding-assertions", "--drop-unused-functions"]


def cbmc_cmd(job, gb, mode, trace=False):
    cmd = ["cbmc", gb, "--function", "harness", "--json-ui"] + STD_FLAGS
    if job.unwind:
        cmd += ["--unwind", str(job.unwind)]
    uws = list(job.unwindset)
    if "mpi_model.c" in job.stubs:     # loops of the environment model have fixed, known bounds
        uws += ["vt_type_of.0:13", "vt_count_kind.0:33", "MPI_Bcast.0:9", "MPI_Allreduce.0:5"]
    if uws:
        cmd += ["--unwindset", ",".join(uws)]
    if job.object_bits:
        cmd += ["--object-bits", str(job.object_bits)]
    cmd += job.backend
    if mode == "witness":
        cmd += ["--no-standard-checks", "--unwinding-assertions", "--trace"]
    else:
        cmd += job.flags
        if job.leak_check:
            cmd += ["--memory-leak-check"]
        if trace:
            cmd += ["--trace"]
    return cmd


def parse_cbmc(out):
    """-> (props, messages, verdict, stats)"""
    try:
        data = json.loads(out)
    except Exception:
        return None, ["unparsable cbmc output: " + out[-500:]], "ERROR", {}
    props, msgs, verdict, stats = [], [], None, {}
    for x in data:
        if "result" in x:
            props = x["result"]
        if "cProverStatus" in x:
            verdict = x["cProverStatus"]
        t = x.get("messageText")
        if t:
            if x.get("messageType") in ("ERROR", "WARNING"):
                msgs.append(x["messageType"] + ": " + t)
            m = re.search(r"Runtime Solver: ([0-9.e+-]+)s", t)
            if m:
                stats["solver_s"] = stats.get("solver_s", 0) + float(m.group(1))
            m = re.search(r"Runtime decision procedure: ([0-9.e+-]+)s", t)
            if m:
                stats["dp_s"] = stats.get("dp_s", 0) + float(m.group(1))
            m = re.search(r"(\d+) variables, (\d+) clauses", t)
            if m:
                stats["vars"], stats["clauses"] = int(m.group(1)), int(m.group(2))
            m = re.search(r"size of program expression: (\d+) steps", t)
            if m:
                stats["steps"] = int(m.group(1))
            m = re.search(r"Generated (\d+) VCC\(s\), (\d+) remaining", t)
            if m:
                stats["vccs"] = int(m.group(2))
    return props, msgs, verdict, stats


def value_to_bytes(v):
    """CBMC json value -> raw little-endian bytes (x86-64 layout, padding members included)"""
    if "members" in v:
        return b"".join(value_to_bytes(m["value"]) for m in v["members"])
    if "elements" in v:
        return b"".join(value_to_bytes(e["value"]) for e in v["elements"])
    if "binary" in v:
        b = v["binary"]
        n = len(b)
        if n % 8:
            raise ValueError("odd bit width %d" % n)
        return int(b, 2).to_bytes(n // 8, "little")
    if v.get("name") == "pointer":
        raise ValueError("pointer-valued input cannot be replayed")
    raise ValueError("unhandled value kind: " + json.dumps(v)[:200])


def value_brief(v, depth=0):
    if "members" in v:
        return {m["name"]: value_brief(m["value"], depth + 1) for m in v["members"] if not m["name"].startswith("$pad")}
    if "elements" in v:
        el = [value_brief(e["value"], depth + 1) for e in v["elements"]]
        return el if len(el) <= 24 else el[:24] + ["..."]
    return v.get("data", v.get("binary"))


def extract_inputs(trace):
    for st in trace:
        if st.get("stepType") == "input" and st.get("inputID") == "in":
            return st["values"][0]
    return None


def native_build(ctx, job, mode, extra_defs=()):
    jdir = os.path.join(ctx.scratch, "j", safe(job.oid))
    tag = mode + ("" if not extra_defs else "." + hashlib.sha1(" ".join(extra_defs).encode()).hexdigest()[:6])
    exe = os.path.join(jdir, "native.%s.exe" % tag)
    with ctx.keylock("nexe:" + exe):
        if os.path.exists(exe):
            return exe
        with_bb = "-DENABLE_BURST_BUFFER" in job.extra_cppflags
        lib = ctx.native_lib(with_bb)
        defs = list(job.defines) + list(extra_defs) + ["-DREPLAY"] + (["-DWITNESS"] if mode == "witness" else [])
        cpp = ctx.cppflags(job.extra_cppflags) + ["-I" + jdir] + defs
        for u in job.includes:
            cpp += ctx.unit_dir_flags(u)
        srcs = [os.path.join(VERIF, "harness", job.harness)] + [os.path.join(VERIF, "stubs", s) for s in job.stubs]
        for u in job.patched_units:
            srcs.append(os.path.join(jdir, "pu", os.path.splitext(os.path.basename(u))[0] + ".c"))
            cpp += ctx.unit_dir_flags(u)
        # units listed in job.units come from the native library (same sources, same flags)
        cmd = ["gcc", "-g", "-O0", "-w", "-fsanitize=address,undefined", "-fno-sanitize-recover=undefined",
               "-Wl,--allow-multiple-definition", "-o", exe] + srcs + cpp + [lib] + job.native_libs + ["-L/usr/lib/x86_64-linux-gnu/openmpi/lib", "-lmpi", "-lm"]
        r = subprocess.run(cmd, capture_output=True, text=True)
        if r.returncode != 0:
            raise RuntimeError("native build failed for %s:\n%s" % (job.oid, r.stderr[-4000:]))
        return exe


def native_run(exe, blob_path, timeout=60):
    env = dict(os.environ, VH_REPLAY_FILE=blob_path, ASAN_OPTIONS="detect_leaks=0:abort_on_error=0",
               UBSAN_OPTIONS="print_stacktrace=1")
    try:
        r = subprocess.run([exe], capture_output=True, text=True, timeout=timeout, env=env)
        return r.returncode, r.stderr[-6000:]
    except subprocess.TimeoutExpired:
        return -99, "native replay timed out"


def run_job(ctx, job):
    res = JobResult(job)
    w = max(1, min(job.weight, ctx.par))
    with ctx.cv:
        while ctx.slots < w:
            ctx.cv.wait()
        ctx.slots -= w
    t0 = time.time()
    try:
        _run_job(ctx, job, res)
    except Exception as e:  # infrastructure problem: never a success
        res.status = "error"
        res.notes.append("exception: %s" % e)
    finally:
        with ctx.cv:
            ctx.slots += w
            ctx.cv.notify_all()
    res.wall_s = time.time() - t0
    return res


def _cbmc(ctx, job, gb, mode, res, trace=False):
    cmd = cbmc_cmd(job, gb, mode, trace)
    rc, out, err, to, wall = run_proc(cmd, job.timeout, job.mem_gb)
    res.n_queries += 1
    if to:
        return None, "timeout after %ds" % job.timeout
    props, msgs, verdict, stats = parse_cbmc(out)
    res.solver_s += stats.get("solver_s", 0)
    res.sat_vars += stats.get("vars", 0)
    res.sat_clauses += stats.get("clauses", 0)
    res.steps += stats.get("steps", 0)
    res.vccs += stats.get("vccs", 0)
    bad = [m for m in msgs if m.startswith("ERROR") or "too many addressed objects" in m or "out of memory" in m.lower()]
    if props is None or verdict is None or (not props and verdict != "success") or bad or rc not in (0, 10):
        return None, "cbmc gave no verdict (rc=%s): %s %s" % (rc, "; ".join(bad or msgs)[-800:], err[-300:])
    return props, None


def _run_job(ctx, job, res):
    known = load_known()
    active_kf = [f for f in job.findings if f in known["known"]]
    excl = ["-DKF_EXCLUDE_" + f for f in active_kf]

    # ---- main run (known-finding witness classes excluded by assume) -------
    gb = build_gb(ctx, job, "main", excl)
    props, why = _cbmc(ctx, job, gb, "main", res)
    if props is None:
        res.status = "inconclusive"
        res.notes.append(why)
        return
    res.props = [(p["property"], p["status"], p.get("description", ""),
                  p.get("sourceLocation", {}).get("file", ""), p.get("sourceLocation", {}).get("line", "")) for p in props]
    fails = [p for p in props if p["status"] != "SUCCESS"]
    if fails:
        res.status = "fail"
        res.failed = fails
        _replay_failure(ctx, job, gb, excl, res)
        return

    # ---- witness twin: vacuity guard + translator validation ----------------
    wgb = build_gb(ctx, job, "witness", excl)
    wprops, why = _cbmc(ctx, job, wgb, "witness", res)
    if wprops is None:
        res.status = "inconclusive"
        res.notes.append("witness run: " + why)
        return
    wit = [p for p in wprops if p.get("description", "").startswith("WITNESS")]
    res.witness_total = len(wit)
    unreached = [p["description"] for p in wit if p["status"] != "FAILURE"]
    unw = [p for p in wprops if not p.get("description", "").startswith("WITNESS") and p["status"] != "SUCCESS"]
    if not wit or unreached or unw:
        res.status = "error"
        res.notes.append("vacuity guard: unreachable witnesses %s; other failures in witness run %s" %
                         (unreached, [p["description"] for p in unw][:5]))
        return
    res.witness_reached = len(wit)
    if job.native_ok:
        exe = native_build(ctx, job, "witness", excl)
        jdir = os.path.dirname(exe)
        for i, p in enumerate(wit):
            name = p["description"][len("WITNESS "):]
            v = extract_inputs(p.get("trace", []))
            if v is None:
                res.status = "error"
                res.notes.append("no input step in witness trace for " + name)
                return
            blob = os.path.join(jdir, "wit%d.bin" % i)
            open(blob, "wb").write(value_to_bytes(v))
            rc, err = native_run(exe, blob)
            if rc == 0 and ("WITNESS reached: " + name) in err:
                res.witness_native_ok += 1
                if len(res.witness_samples) < 2:
                    res.witness_samples.append({"witness": name, "inputs": value_brief(v)})
            else:
                res.status = "error"
                res.notes.append("translator validation failed: native run of witness '%s' rc=%s: %s" % (name, rc, err[-600:]))
                return
    else:
        for p in wit[:2]:
            v = extract_inputs(p.get("trace", []))
            if v is not None:
                res.witness_samples.append({"witness": p["description"][8:], "inputs": value_brief(v)})

    # ---- known findings: is the excluded class still violated? ------------
    for fid in active_kf:
        with ctx.lock:
            already = fid in ctx.kf_confirmed
        if already:      # one solver confirmation per listed finding and run is enough
            continue
        others = ["-DKF_EXCLUDE_" + f for f in active_kf if f != fid]
        gb2 = build_gb(ctx, job, "main", others + ["-DKF_ONLY_" + fid])
        props2, why = _cbmc(ctx, job, gb2, "main", res)
        if props2 is None:
            res.status = "inconclusive"
            res.notes.append("known-finding confirmation run: " + why)
            return
        if any(p["status"] != "SUCCESS" for p in props2):
            res.known.append(fid)
            with ctx.lock:
                ctx.kf_confirmed.add(fid)
        else:
            res.notes.append("listed finding %s no longer reproduces (excluded class is now clean)" % fid)
    res.status = "pass"


def _replay_failure(ctx, job, gb, excl, res):
    """counterexample -> input blob -> native re-execution of the same harness on the same real code"""
    props, why = _cbmc(ctx, job, gb, "main", res, trace=True)
    rdir = os.path.join(VERIF, "replays", ctx.prop)
    os.makedirs(rdir, exist_ok=True)
    rpath = os.path.join(rdir, safe(job.oid) + ".json")
    rec = {"property": ctx.prop, "obligation": job.oid, "harness": job.harness, "defines": job.defines + list(excl),
           "failed": [{"property": p["property"], "description": p.get("description"),
                       "location": "%s:%s" % (p.get("sourceLocation", {}).get("file"), p.get("sourceLocation", {}).get("line"))}
                      for p in res.failed][:20]}
    v = None
    if props:
        for p in props:
            if p["status"] != "SUCCESS" and p.get("trace"):
                v = extract_inputs(p["trace"])
                rec["traced_property"] = p.get("description")
                break
    if v is None:
        rec["replay"] = "no counterexample inputs available (%s)" % (why or "no input step")
        res.replay_verdict = "unavailable"
    else:
        rec["inputs"] = value_brief(v)
        try:
            blob = value_to_bytes(v)
            rec["inputs_hex"] = blob.hex()
            if job.native_ok:
                exe = native_build(ctx, job, "main", excl)
                bpath = os.path.join(os.path.dirname(exe), "cex.bin")
                open(bpath, "wb").write(blob)
                rc, err = native_run(exe, bpath)
                rec["native_rc"], rec["native_stderr"] = rc, err[-3000:]
                if rc == 1 and "ASSERTION FAILED" in err:
                    res.replay_verdict = "reproduced"
                elif rc != 0 and ("AddressSanitizer" in err or "runtime error" in err or rc < 0):
                    res.replay_verdict = "reproduced (sanitizer/crash)"
                elif rc == 77:
                    res.replay_verdict = "not reproduced: assumption violated natively"
                else:
                    res.replay_verdict = "not reproduced (native rc=%s)" % rc
            else:
                res.replay_verdict = "native replay not available for this harness"
        except Exception as e:
            res.replay_verdict = "replay infrastructure error: %s" % e
    rec["replay_verdict"] = res.replay_verdict
    rec["replay_cmd"] = "python3 /verif/check.py %s --replay %s" % (ctx.prop, rpath)
    json.dump(rec, open(rpath, "w"), indent=1)
    res.replay_path = rpath


# --------------------------------------------------------------------------
def load_known():
    known, fixed = {}, []
    if os.path.exists(KNOWN_FILE):
        for line in open(KNOWN_FILE):
            line = line.strip()
            if line.startswith("known:"):
                kv = dict(m.groups() for m in re.finditer(r"(\w+)=(\S+)", line))
                if "finding" in kv:
                    known[kv["finding"]] = line
            elif line.startswith("fixed:"):
                fixed.append(line)
    return {"known": known, "fixed": fixed}


def run_property(prop, tier, jobs, level_text="", assumptions=(), explanation="", seed=0):
    t0 = time.time()
    ctx = Ctx(prop, tier, seed)
    only = os.environ.get("VERIF_ONLY")
    if only:
        jobs = [j for j in jobs if re.search(only, j.oid)]
    if seed:
        import random
        random.Random(seed).shuffle(jobs)   # the seed only permutes scheduling; the decision is the solver's
    results = []
    try:
        with cf.ThreadPoolExecutor(max(ctx.par, 4) * 4) as ex:
            futs = {ex.submit(run_job, ctx, j): j for j in jobs}
            for f in cf.as_completed(futs):
                r = f.result()
                results.append(r)
                line = "[%s] %-40s %-12s %6.1fs  props=%d wit=%d/%d native=%d %s" % (
                    prop, r.job.oid, r.status, r.wall_s, len(r.props), r.witness_reached, r.witness_total,
                    r.witness_native_ok, ("; ".join(r.notes))[:300])
                print(line, flush=True)
    finally:
        ctx.cleanup()
    results.sort(key=lambda r: r.job.oid)
    known = load_known()
    violations, broken = 0, 0
    kf_seen = {}
    for r in results:
        if r.status == "fail":
            if r.replay_verdict and r.replay_verdict.startswith("reproduced"):
                violations += 1
                print("VIOLATION property=%s replay=%s" % (prop, r.replay_path))
                for p in r.failed[:5]:
                    print("   obligation=%s failed: %s (%s:%s)" % (r.job.oid, p.get("description"),
                          p.get("sourceLocation", {}).get("file"), p.get("sourceLocation", {}).get("line")))
            else:
                broken += 1
                print("ENCODING-ERROR property=%s obligation=%s: solver counterexample did not reproduce natively (%s); "
                      "replay=%s" % (prop, r.job.oid, r.replay_verdict, r.replay_path))
                for p in r.failed[:5]:
                    print("   failed: %s (%s:%s)" % (p.get("description"), p.get("sourceLocation", {}).get("file"),
                                                   p.get("sourceLocation", {}).get("line")))
        elif r.status != "pass":
            broken += 1
            print("INCONCLUSIVE property=%s obligation=%s status=%s %s" % (prop, r.job.oid, r.status, "; ".join(r.notes)[:1500]))
        for fid in r.known:
            kf_seen.setdefault(fid, []).append(r.job.oid)
    for fid, oids in sorted(kf_seen.items()):
        txt = re.sub(r"^known:\s*property=\S+\s*", "", known["known"][fid])
        print("KNOWN-FINDING: property=%s %s [confirmed by the solver in %d obligation(s), e.g. %s]" % (prop, txt, len(oids), oids[0]))
    wall = time.time() - t0
    write_evidence(prop, tier, seed, results, wall, violations, level_text, assumptions, explanation)
    if violations:
        return 1
    if broken:
        return 2
    return 0


def write_evidence(prop, tier, seed, results, wall, violations, level_text, assumptions, explanation):
    evals = sum(len(r.props) for r in results)
    nontrivial = sum(r.witness_reached for r in results if r.status == "pass")
    samples = []
    for r in results:
        s = {"obligation": r.job.oid, "statement": r.job.desc, "functions": r.job.functions, "bounds": r.job.bounds,
             "status": r.status, "assertions_decided": len(r.props),
             "harness_assertions": sorted({p[2] for p in r.props if "/verif/" in p[3] and ".assertion." in p[0]})[:16],
             "witnesses_reached": r.witness_reached, "witness_inputs": r.witness_samples[:1],
             "solver_s": round(r.solver_s, 2), "wall_s": round(r.wall_s, 1)}
        if r.known:
            s["known_findings_confirmed"] = r.known
        if r.notes:
            s["notes"] = r.notes[:3]
        samples.append(s)
    funcs = sorted({f for r in results for f in r.job.functions})
    ass = list(assumptions)
    for r in results:
        for a in r.job.assumptions:
            if a not in ass:
                ass.append(a)
    ev = {
        "property_id": prop, "tier": tier, "seed": seed, "level": "model_checking",
        "coverage": {
            "evaluations": evals,
            "distinct_nontrivial": nontrivial,
            "rule": "evaluations = assertions (harness obligations + CBMC's generated pointer/bounds/overflow/unwinding checks) decided "
                    "by the solver over all inputs within the bounds, summed over harness jobs; distinct_nontrivial = number of "
                    "distinct COVER/WITNESS_END reachability goals that the solver showed reachable in the -DWITNESS twin of a "
                    "passing harness (each is a different named case of a different obligation).",
            "samples": samples,
            "traces_validated_against_impl": sum(r.witness_native_ok for r in results),
            "obligations": len(results),
            "discharged": sum(1 for r in results if r.status == "pass"),
            "solver_queries": sum(r.n_queries for r in results),
            "solver_seconds": round(sum(r.solver_s for r in results), 2),
            "sat_variables": sum(r.sat_vars for r in results),
            "sat_clauses": sum(r.sat_clauses for r in results),
            "program_steps": sum(r.steps for r in results),
            "functions_encoded": funcs,
            "checker_cmd": "cbmc 6.11 --json-ui --unwinding-assertions --no-malloc-may-fail --drop-unused-functions (+ per-job unwind/back end)",
            "explanation": explanation,
            "exhaustive": False,
            "known_findings_confirmed": sorted({f for r in results for f in r.known}),
        },
        "assumptions": ass,
        "wall_s": round(wall, 2),
        "violations": violations,
    }
    os.makedirs(os.path.join(VERIF, "evidence"), exist_ok=True)
    json.dump(ev, open(os.path.join(VERIF, "evidence", prop + ".json"), "w"), indent=1)


def replay_file(prop, path, jobs):
    """re-run a recorded counterexample natively against the current tree"""
    rec = json.load(open(path))
    job = next((j for j in jobs if j.oid == rec["obligation"]), None)
    if job is None or "inputs_hex" not in rec:
        print("cannot replay: obligation or inputs missing")
        return 2
    ctx = Ctx(prop, "replay", 0)
    try:
        excl = [d for d in rec.get("defines", []) if d.startswith("-DKF_")]
        jdir = os.path.join(ctx.scratch, "j", safe(job.oid))
        os.makedirs(jdir, exist_ok=True)
        ctx.prepare_includes(job, jdir)
        exe = native_build(ctx, job, "main", excl)
        b = os.path.join(jdir, "cex.bin")
        open(b, "wb").write(bytes.fromhex(rec["inputs_hex"]))
        rc, err = native_run(exe, b)
        print(err)
        print("native rc=%s" % rc)
        return 1 if rc != 0 else 0
    finally:
        ctx.cleanup()
