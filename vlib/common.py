"""shared job fragments"""
MPI = ["vh_rt.c", "mpi_model.c"]
STUB_NOTE = ["MPI model (stubs/mpi_model.c): Comm_rank/size symbolic; Allreduce result combines the own contribution with an arbitrary "
             "one (MAX >= own, MIN <= own); Bcast: non-root gets arbitrary bytes; MPI-IO calls recorded in a trace and, where "
             "injection is on, return an arbitrary code (MPI_Error_class = identity = any class); datatype constructors captured"]
PUTVAR_UNITS = ["src/drivers/ncmpio/ncmpio_getput.m4", "src/drivers/ncmpio/ncmpio_util.c", "src/drivers/ncmpio/ncmpio_filetype.c",
                "src/drivers/ncmpio/ncmpio_file_io.c", "src/drivers/ncmpio/ncmpio_wait.c", "src/drivers/ncmpio/ncmpio_sync.c",
                "src/drivers/ncmpio/ncmpio_fill.c", "src/drivers/common/dtype_decode.c", "src/drivers/common/create_imaptype.c",
                "src/drivers/common/convert_swap.m4", "src/drivers/common/ncx.m4", "src/drivers/common/error_mpi2nc.c",
                "src/drivers/common/utils.c"]
PUTVAR_FUNCS = ["ncmpio_put_var", "put_varm", "ncmpio_getput_zero_req", "ncmpii_buftype_decode", "ncmpii_create_imaptype",
                "ncmpio_pack_xbuf", "ncmpio_filetype_create_vars", "filetype_create_vara", "stride_flatten", "ncmpio_file_set_view",
                "ncmpio_read_write", "ncmpio_write_numrecs", "ncmpii_in_swapn"]
